#!/bin/bash
# runentry.sh <ID> <entry> [tier] [extra gosymex args]: debug helper, runs a single entry verbosely
id=$1; entry=$2; tier=${3:-quick}; shift 3
W=/tmp/re_$id; rm -rf $W; mkdir -p $W/ov
python3 - "$id" "$W" <<'PY'
import json,sys,os,glob,shutil
pid,W=sys.argv[1],sys.argv[2]
cfg=json.load(open('/verif/checks/%s.json'%pid))
u=(cfg.get('units') or [cfg])[0]
for un in (cfg.get('units') or [cfg]):
    if any(e['name']==os.environ.get('ENTRY') for e in un['entries']): u=un
pk=u['pkgname']
open(W+'/ov/zz_vapi.go','w').write(open('/verif/harness/common/zz_vapi.go.tmpl').read().replace('PKGNAME',pk))
for f in glob.glob('/verif/harness/%s/zz_*.go'%u['harness_dir']):
    if u.get('harness_files') and os.path.basename(f) not in u['harness_files']: continue
    shutil.copy(f,W+'/ov/')
import subprocess
for g in u.get('generate') or []:
    outp=W+'/ov/'+g['out']
    subprocess.run([a.replace('{repo}','/repo').replace('{out}',outp).replace('{verif}','/verif') for a in g['cmd']],check=True)
    _src=open(outp).read().replace('PKGNAME',pk); open(outp,'w').write(_src)
u=dict(u); u['overlay_dir']=W+'/ov'; u['property']=pid
json.dump(u,open(W+'/cfg.json','w'))
PY
/verif/bin/gosymex -config $W/cfg.json -tier $tier -entry $entry -solver ${VERIF_SOLVER:-z3-new} -out $W/res.json -v "$@"
python3 - $W/res.json <<'PY'
import json,sys
r=json.load(open(sys.argv[1]))
print('error:',r.get('error'))
for e in r.get('entries') or []:
    print(e['entry'],'cases',len(e['cases']),'queries',e['solver_queries'],'solver_s',round(e['solver_seconds'],1),'wall',round(e['seconds'],1), e.get('error'))
    inc={}
    for c in e['cases']:
        for m in c.get('inconclusive') or []: inc[m[:300]]=inc.get(m[:300],0)+1
        for v in c.get('violations') or []: print('  VIOL',c['choices'],v['label'],v['kind'],v['msg'][:150])
    for m,n in inc.items(): print('  INCON x%d: %s'%(n,m))
PY
