#!/usr/bin/env python3
"""Regenerates MANIFEST.json from checks/*.json and manifest_meta.json (claims, notes, not_applicable)."""
import json, os, glob
V = os.path.dirname(os.path.abspath(__file__))
meta = json.load(open(os.path.join(V, "manifest_meta.json")))
props = [json.loads(l) for l in open(os.path.join(V, "properties.jsonl"))]
checks = []
claimed = set()
for p in props:
    pid = p["id"]
    m = meta["checks"].get(pid)
    if not m or not os.path.exists(os.path.join(V, "checks", pid + ".json")):
        continue
    claimed.add(pid)
    checks.append({
        "property_id": pid,
        "quick_cmd": "./check %s --tier quick" % pid,
        "thorough_cmd": "./check %s --tier thorough" % pid,
        "evidence_file": "/verif/evidence/%s.json" % pid,
        "replay_cmd_template": "./check %s --replay {path}" % pid,
        "engine": "gosymex",
        "level_claimed": {"category": "model_checking", "text": m["level_text"], "design_ref": m.get("design_ref", "DESIGN.md §5 " + pid)},
        "level_note": m["level_note"],
        "technique": m.get("technique", "bounded symbolic execution of the real Go SSA with state merging; SMT (z3) decides every obligation; counterexamples replayed natively"),
    })
na = []
for p in props:
    if p["id"] not in claimed:
        na.append({"property_id": p["id"], "reason": meta["not_applicable"].get(p["id"], "not yet covered by a conclusive solver-based check on the unchanged tree (work in progress)")})
man = {
    "version": 1,
    "setup_cmd": "cd /verif/engine && GOFLAGS=-mod=mod GOPROXY=off GOSUMDB=off GOTOOLCHAIN=local go build -o /verif/bin/gosymex . && GOFLAGS=-mod=mod GOPROXY=off GOSUMDB=off GOTOOLCHAIN=local go build -o /verif/bin/vrewrite ./vrewrite",
    "hooks": {
        "guard": "verif",
        "enable": "no source hooks are needed: harnesses, stubs and the replay driver enter /repo's packages through go/packages Overlay (engine) and `go test -overlay` (native replay); the build tag `verif` is reserved and unused",
        "baseline_off_cmd": "for m in . cmd/cdi cmd/validate schema specs-go; do (cd /repo/$m && GOFLAGS=-mod=mod GOPROXY=off GOSUMDB=off go test -json -vet=off -count=1 -timeout 25m ./...); done",
        "source_commits": [],
        "add_only": True,
    },
    "engines": [{"name": "gosymex", "path": "/verif/engine", "serves_properties": sorted(claimed),
                 "kind_free_text": "symbolic executor for go/ssa (x/tools v0.29.0) written for this task: path conditions and values as hash-consed Bool/bit-vector terms, Rosette-style guarded unions with state merging at joins, SMT-LIB2 over a pipe to z3 5.1.0 (z3-new), native replay of every counterexample"}],
    "checks": checks,
    "not_applicable": na,
    "notes": meta.get("notes", ""),
}
json.dump(man, open(os.path.join(V, "MANIFEST.json"), "w"), indent=1)
print("claimed:", sorted(claimed))
