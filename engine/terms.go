package main

// Hash-consed term DAG over Bool (w==0) and fixed-width bit-vectors (w in 1..64),
// with constant folding and light simplification. One table per worker (Ctx).

import (
	"fmt"
	"math/bits"
	"strings"
)

type Op uint8

const (
	OpConst Op = iota
	OpVar
	OpNot // bool
	OpAnd
	OpOr
	OpIte
	OpEq
	OpBvNot
	OpBvNeg
	OpAdd
	OpSub
	OpMul
	OpUDiv
	OpURem
	OpSDiv
	OpSRem
	OpBvAnd
	OpBvOr
	OpBvXor
	OpShl
	OpLshr
	OpAshr
	OpUlt
	OpUle
	OpSlt
	OpSle
	OpExtract // val = hi<<8|lo
	OpZExt
	OpSExt
	OpConcat
)

var opSMT = map[Op]string{
	OpNot: "not", OpAnd: "and", OpOr: "or", OpIte: "ite", OpEq: "=",
	OpBvNot: "bvnot", OpBvNeg: "bvneg", OpAdd: "bvadd", OpSub: "bvsub", OpMul: "bvmul",
	OpUDiv: "bvudiv", OpURem: "bvurem", OpSDiv: "bvsdiv", OpSRem: "bvsrem",
	OpBvAnd: "bvand", OpBvOr: "bvor", OpBvXor: "bvxor", OpShl: "bvshl", OpLshr: "bvlshr", OpAshr: "bvashr",
	OpUlt: "bvult", OpUle: "bvule", OpSlt: "bvslt", OpSle: "bvsle", OpConcat: "concat",
}

type Term struct {
	id   int
	op   Op
	w    int // 0 = Bool
	args []*Term
	val  uint64
	name string
	ics  int // number of leaves if the term is an ite tree over constants (0 otherwise); bounds the rewrites below
}

func (t *Term) IsConst() bool { return t.op == OpConst }
func (t *Term) IsTrue() bool  { return t.op == OpConst && t.w == 0 && t.val == 1 }
func (t *Term) IsFalse() bool { return t.op == OpConst && t.w == 0 && t.val == 0 }

type tkey struct {
	op      Op
	w       int
	a, b, c int
	val     uint64
	name    string
}

type Terms struct {
	m    map[tkey]*Term
	all  []*Term
	vars []*Term
	T, F *Term
}

func newTerms() *Terms {
	tt := &Terms{m: map[tkey]*Term{}}
	tt.T = tt.mk(OpConst, 0, 1, "")
	tt.F = tt.mk(OpConst, 0, 0, "")
	return tt
}

func (tt *Terms) mk(op Op, w int, val uint64, name string, args ...*Term) *Term {
	k := tkey{op: op, w: w, val: val, name: name, a: -1, b: -1, c: -1}
	if len(args) > 0 {
		k.a = args[0].id
	}
	if len(args) > 1 {
		k.b = args[1].id
	}
	if len(args) > 2 {
		k.c = args[2].id
	}
	if t, ok := tt.m[k]; ok {
		return t
	}
	t := &Term{id: len(tt.all), op: op, w: w, val: val, name: name, args: args}
	if op == OpConst {
		t.ics = 1
	} else if op == OpIte && args[1].ics > 0 && args[2].ics > 0 {
		t.ics = args[1].ics + args[2].ics
		if t.ics > 1<<20 {
			t.ics = 1 << 20
		}
	}
	tt.all = append(tt.all, t)
	tt.m[k] = t
	if op == OpVar {
		tt.vars = append(tt.vars, t)
	}
	return t
}

func mask(w int) uint64 {
	if w >= 64 {
		return ^uint64(0)
	}
	return (uint64(1) << uint(w)) - 1
}

func sext64(v uint64, w int) int64 {
	if w >= 64 {
		return int64(v)
	}
	sh := uint(64 - w)
	return int64(v<<sh) >> sh
}

func (tt *Terms) Const(w int, v uint64) *Term {
	if w == 0 {
		if v != 0 {
			return tt.T
		}
		return tt.F
	}
	return tt.mk(OpConst, w, v&mask(w), "")
}
func (tt *Terms) Bool(b bool) *Term {
	if b {
		return tt.T
	}
	return tt.F
}
func (tt *Terms) Var(name string, w int) *Term { return tt.mk(OpVar, w, 0, name) }

func (tt *Terms) Not(a *Term) *Term {
	if a.w != 0 {
		panic("Not on non-bool")
	}
	if a.IsConst() {
		return tt.Bool(a.val == 0)
	}
	if a.op == OpNot {
		return a.args[0]
	}
	return tt.mk(OpNot, 0, 0, "", a)
}

func (tt *Terms) And(a, b *Term) *Term {
	if a.IsFalse() || b.IsFalse() {
		return tt.F
	}
	if a.IsTrue() {
		return b
	}
	if b.IsTrue() {
		return a
	}
	if a == b {
		return a
	}
	if (a.op == OpNot && a.args[0] == b) || (b.op == OpNot && b.args[0] == a) {
		return tt.F
	}
	if a.id > b.id {
		a, b = b, a
	}
	return tt.mk(OpAnd, 0, 0, "", a, b)
}

func (tt *Terms) Or(a, b *Term) *Term {
	if a.IsTrue() || b.IsTrue() {
		return tt.T
	}
	if a.IsFalse() {
		return b
	}
	if b.IsFalse() {
		return a
	}
	if a == b {
		return a
	}
	if (a.op == OpNot && a.args[0] == b) || (b.op == OpNot && b.args[0] == a) {
		return tt.T
	}
	// (x & y) | (x & !y) = x  (common after merging both sides of a branch)
	if a.op == OpAnd && b.op == OpAnd {
		for i := 0; i < 2; i++ {
			for j := 0; j < 2; j++ {
				if a.args[i] == b.args[j] {
					oa, ob := a.args[1-i], b.args[1-j]
					if (oa.op == OpNot && oa.args[0] == ob) || (ob.op == OpNot && ob.args[0] == oa) {
						return a.args[i]
					}
				}
			}
		}
	}
	if a.id > b.id {
		a, b = b, a
	}
	return tt.mk(OpOr, 0, 0, "", a, b)
}

func (tt *Terms) AndN(ts ...*Term) *Term {
	r := tt.T
	for _, t := range ts {
		r = tt.And(r, t)
	}
	return r
}
func (tt *Terms) OrN(ts ...*Term) *Term {
	r := tt.F
	for _, t := range ts {
		r = tt.Or(r, t)
	}
	return r
}
func (tt *Terms) Implies(a, b *Term) *Term { return tt.Or(tt.Not(a), b) }

func (tt *Terms) Ite(c, a, b *Term) *Term {
	if a.w != b.w {
		panic(fmt.Sprintf("Ite width mismatch %d %d", a.w, b.w))
	}
	if c.IsTrue() {
		return a
	}
	if c.IsFalse() {
		return b
	}
	if a == b {
		return a
	}
	if a.w == 0 {
		if a.IsTrue() && b.IsFalse() {
			return c
		}
		if a.IsFalse() && b.IsTrue() {
			return tt.Not(c)
		}
		if a.IsTrue() {
			return tt.Or(c, b)
		}
		if a.IsFalse() {
			return tt.And(tt.Not(c), b)
		}
		if b.IsTrue() {
			return tt.Or(tt.Not(c), a)
		}
		if b.IsFalse() {
			return tt.And(c, a)
		}
	}
	if c.op == OpNot {
		return tt.Ite(c.args[0], b, a)
	}
	// ite(c, ite(c, x, y), z) = ite(c, x, z)
	if a.op == OpIte && a.args[0] == c {
		a = a.args[1]
	}
	if b.op == OpIte && b.args[0] == c {
		b = b.args[2]
	}
	if a == b {
		return a
	}
	return tt.mk(OpIte, a.w, 0, "", c, a, b)
}

func (tt *Terms) Eq(a, b *Term) *Term {
	if a.w != b.w {
		panic(fmt.Sprintf("Eq width mismatch %d %d", a.w, b.w))
	}
	if a == b {
		return tt.T
	}
	if a.IsConst() && b.IsConst() {
		return tt.Bool(a.val == b.val)
	}
	if a.w == 0 {
		if a.IsTrue() {
			return b
		}
		if b.IsTrue() {
			return a
		}
		if a.IsFalse() {
			return tt.Not(b)
		}
		if b.IsFalse() {
			return tt.Not(a)
		}
	}
	// eq(ite(c, k1, k2), k) with constants: push down (keeps guards small)
	if b.IsConst() && a.op == OpIte {
		return tt.eqIteConst(a, b, 0)
	}
	if a.IsConst() && b.op == OpIte {
		return tt.eqIteConst(b, a, 0)
	}
	if a.id > b.id {
		a, b = b, a
	}
	return tt.mk(OpEq, 0, 0, "", a, b)
}

func (tt *Terms) eqIteConst(a, k *Term, depth int) *Term {
	if a.IsConst() {
		return tt.Bool(a.val == k.val)
	}
	if a.op == OpIte && a.ics > 0 && a.ics <= maxIteLeaves {
		return tt.Ite(a.args[0], tt.eqIteConst(a.args[1], k, depth+1), tt.eqIteConst(a.args[2], k, depth+1))
	}
	x, y := a, k
	if x.id > y.id {
		x, y = y, x
	}
	return tt.mk(OpEq, 0, 0, "", x, y)
}

func (tt *Terms) Bin(op Op, a, b *Term) *Term {
	if a.w != b.w {
		panic(fmt.Sprintf("Bin %s width mismatch %d %d", opSMT[op], a.w, b.w))
	}
	w := a.w
	rw := w
	switch op {
	case OpUlt, OpUle, OpSlt, OpSle:
		rw = 0
	}
	if a.IsConst() && b.IsConst() {
		x, y := a.val, b.val
		sx, sy := sext64(x, w), sext64(y, w)
		switch op {
		case OpAdd:
			return tt.Const(w, x+y)
		case OpSub:
			return tt.Const(w, x-y)
		case OpMul:
			return tt.Const(w, x*y)
		case OpUDiv:
			if y == 0 {
				return tt.Const(w, mask(w))
			}
			return tt.Const(w, x/y)
		case OpURem:
			if y == 0 {
				return tt.Const(w, x)
			}
			return tt.Const(w, x%y)
		case OpSDiv:
			if sy == 0 {
				if sx < 0 {
					return tt.Const(w, 1)
				}
				return tt.Const(w, mask(w))
			}
			if sy == -1 {
				return tt.Const(w, uint64(-sx))
			}
			return tt.Const(w, uint64(sx/sy))
		case OpSRem:
			if sy == 0 {
				return tt.Const(w, x)
			}
			if sy == -1 {
				return tt.Const(w, 0)
			}
			return tt.Const(w, uint64(sx%sy))
		case OpBvAnd:
			return tt.Const(w, x&y)
		case OpBvOr:
			return tt.Const(w, x|y)
		case OpBvXor:
			return tt.Const(w, x^y)
		case OpShl:
			if y >= uint64(w) {
				return tt.Const(w, 0)
			}
			return tt.Const(w, x<<y)
		case OpLshr:
			if y >= uint64(w) {
				return tt.Const(w, 0)
			}
			return tt.Const(w, x>>y)
		case OpAshr:
			if y >= uint64(w) {
				y = uint64(w - 1)
			}
			return tt.Const(w, uint64(sx>>y))
		case OpUlt:
			return tt.Bool(x < y)
		case OpUle:
			return tt.Bool(x <= y)
		case OpSlt:
			return tt.Bool(sx < sy)
		case OpSle:
			return tt.Bool(sx <= sy)
		}
	}
	switch op {
	case OpAdd:
		if a.IsConst() && a.val == 0 {
			return b
		}
		if b.IsConst() && b.val == 0 {
			return a
		}
	case OpSub:
		if b.IsConst() && b.val == 0 {
			return a
		}
		if a == b {
			return tt.Const(w, 0)
		}
	case OpBvAnd:
		if a == b {
			return a
		}
		if (a.IsConst() && a.val == 0) || (b.IsConst() && b.val == 0) {
			return tt.Const(w, 0)
		}
		if a.IsConst() && a.val == mask(w) {
			return b
		}
		if b.IsConst() && b.val == mask(w) {
			return a
		}
	case OpBvOr:
		if a == b {
			return a
		}
		if a.IsConst() && a.val == 0 {
			return b
		}
		if b.IsConst() && b.val == 0 {
			return a
		}
	case OpUlt, OpSlt:
		if a == b {
			return tt.F
		}
	case OpUle, OpSle:
		if a == b {
			return tt.T
		}
	}
	// push comparisons with a constant through ite-of-constants (lengths of unions)
	if rw == 0 && b.IsConst() && a.op == OpIte && isIteConstTree(a, 0) {
		return tt.mapIteConst(a, func(k *Term) *Term { return tt.Bin(op, k, b) })
	}
	if rw == 0 && a.IsConst() && b.op == OpIte && isIteConstTree(b, 0) {
		return tt.mapIteConst(b, func(k *Term) *Term { return tt.Bin(op, a, k) })
	}
	if (op == OpAdd || op == OpSub) && b.IsConst() && a.op == OpIte && isIteConstTree(a, 0) {
		return tt.mapIteConst(a, func(k *Term) *Term { return tt.Bin(op, k, b) })
	}
	return tt.mk(op, rw, 0, "", a, b)
}

const maxIteLeaves = 24

func isIteConstTree(t *Term, depth int) bool {
	return t.ics > 0 && t.ics <= maxIteLeaves
}

func (tt *Terms) mapIteConst(t *Term, f func(*Term) *Term) *Term {
	if t.IsConst() {
		return f(t)
	}
	return tt.Ite(t.args[0], tt.mapIteConst(t.args[1], f), tt.mapIteConst(t.args[2], f))
}

// iteLeaves enumerates (guard, constant) leaves of an ite-of-constants tree.
func (tt *Terms) iteLeaves(t *Term, g *Term, out *[]iteLeaf) {
	if t.IsConst() {
		*out = append(*out, iteLeaf{g, t.val})
		return
	}
	tt.iteLeaves(t.args[1], tt.And(g, t.args[0]), out)
	tt.iteLeaves(t.args[2], tt.And(g, tt.Not(t.args[0])), out)
}

type iteLeaf struct {
	g *Term
	v uint64
}

func (tt *Terms) BvNot(a *Term) *Term {
	if a.IsConst() {
		return tt.Const(a.w, ^a.val)
	}
	return tt.mk(OpBvNot, a.w, 0, "", a)
}
func (tt *Terms) BvNeg(a *Term) *Term {
	if a.IsConst() {
		return tt.Const(a.w, -a.val)
	}
	return tt.mk(OpBvNeg, a.w, 0, "", a)
}

func (tt *Terms) Extract(hi, lo int, a *Term) *Term {
	w := hi - lo + 1
	if lo == 0 && w == a.w {
		return a
	}
	if a.IsConst() {
		return tt.Const(w, a.val>>uint(lo))
	}
	if a.op == OpIte && isIteConstTree(a, 0) {
		return tt.mapIteConst(a, func(k *Term) *Term { return tt.Extract(hi, lo, k) })
	}
	if (a.op == OpZExt || a.op == OpSExt) && lo == 0 && w <= a.args[0].w {
		return tt.Extract(hi, lo, a.args[0])
	}
	return tt.mk(OpExtract, w, uint64(hi)<<8|uint64(lo), "", a)
}

func (tt *Terms) ZExt(w int, a *Term) *Term {
	if w == a.w {
		return a
	}
	if w < a.w {
		return tt.Extract(w-1, 0, a)
	}
	if a.IsConst() {
		return tt.Const(w, a.val)
	}
	if a.op == OpIte && isIteConstTree(a, 0) {
		return tt.mapIteConst(a, func(k *Term) *Term { return tt.ZExt(w, k) })
	}
	return tt.mk(OpZExt, w, uint64(w-a.w), "", a)
}

func (tt *Terms) SExt(w int, a *Term) *Term {
	if w == a.w {
		return a
	}
	if w < a.w {
		return tt.Extract(w-1, 0, a)
	}
	if a.IsConst() {
		return tt.Const(w, uint64(sext64(a.val, a.w)))
	}
	if a.op == OpIte && isIteConstTree(a, 0) {
		return tt.mapIteConst(a, func(k *Term) *Term { return tt.SExt(w, k) })
	}
	return tt.mk(OpSExt, w, uint64(w-a.w), "", a)
}

// smtDef renders the definition body of t, referring to children by name.
func smtName(t *Term) string {
	switch t.op {
	case OpConst:
		if t.w == 0 {
			if t.val != 0 {
				return "true"
			}
			return "false"
		}
		if t.w%4 == 0 {
			return fmt.Sprintf("#x%0*x", t.w/4, t.val)
		}
		return fmt.Sprintf("#b%0*b", t.w, t.val)
	case OpVar:
		return "|" + t.name + "|"
	}
	return fmt.Sprintf("t%d", t.id)
}

func smtSort(w int) string {
	if w == 0 {
		return "Bool"
	}
	return fmt.Sprintf("(_ BitVec %d)", w)
}

func smtBody(t *Term) string {
	var sb strings.Builder
	switch t.op {
	case OpExtract:
		fmt.Fprintf(&sb, "((_ extract %d %d) %s)", t.val>>8, t.val&0xff, smtName(t.args[0]))
	case OpZExt:
		fmt.Fprintf(&sb, "((_ zero_extend %d) %s)", t.val, smtName(t.args[0]))
	case OpSExt:
		fmt.Fprintf(&sb, "((_ sign_extend %d) %s)", t.val, smtName(t.args[0]))
	default:
		sb.WriteString("(")
		sb.WriteString(opSMT[t.op])
		for _, a := range t.args {
			sb.WriteString(" ")
			sb.WriteString(smtName(a))
		}
		sb.WriteString(")")
	}
	return sb.String()
}

// evalTerm evaluates t under a model (variable name -> value); unknown vars are 0.
func evalTerm(t *Term, model map[string]uint64, memo map[int]uint64) uint64 {
	if v, ok := memo[t.id]; ok {
		return v
	}
	var r uint64
	a := func(i int) uint64 { return evalTerm(t.args[i], model, memo) }
	w := t.w
	if len(t.args) > 0 && t.op != OpIte {
		w = t.args[0].w
	}
	switch t.op {
	case OpConst:
		r = t.val
	case OpVar:
		r = model[t.name] & mask(maxInt(t.w, 1))
	case OpNot:
		r = 1 - a(0)
	case OpAnd:
		r = a(0) & a(1)
	case OpOr:
		r = a(0) | a(1)
	case OpIte:
		if a(0) != 0 {
			r = a(1)
		} else {
			r = a(2)
		}
	case OpEq:
		if a(0) == a(1) {
			r = 1
		}
	case OpBvNot:
		r = ^a(0)
	case OpBvNeg:
		r = -a(0)
	case OpExtract:
		r = a(0) >> (t.val & 0xff)
	case OpZExt:
		r = a(0)
	case OpSExt:
		r = uint64(sext64(a(0), t.args[0].w))
	case OpConcat:
		r = a(0)<<uint(t.args[1].w) | a(1)
	default:
		x, y := a(0), a(1)
		sx, sy := sext64(x, w), sext64(y, w)
		switch t.op {
		case OpAdd:
			r = x + y
		case OpSub:
			r = x - y
		case OpMul:
			r = x * y
		case OpUDiv:
			if y == 0 {
				r = mask(w)
			} else {
				r = x / y
			}
		case OpURem:
			if y == 0 {
				r = x
			} else {
				r = x % y
			}
		case OpSDiv:
			if sy == 0 {
				if sx < 0 {
					r = 1
				} else {
					r = mask(w)
				}
			} else if sy == -1 {
				r = uint64(-sx)
			} else {
				r = uint64(sx / sy)
			}
		case OpSRem:
			if sy == 0 {
				r = x
			} else if sy == -1 {
				r = 0
			} else {
				r = uint64(sx % sy)
			}
		case OpBvAnd:
			r = x & y
		case OpBvOr:
			r = x | y
		case OpBvXor:
			r = x ^ y
		case OpShl:
			if y >= uint64(w) {
				r = 0
			} else {
				r = x << y
			}
		case OpLshr:
			if y >= uint64(w) {
				r = 0
			} else {
				r = x >> y
			}
		case OpAshr:
			if y >= uint64(w) {
				y = uint64(w - 1)
			}
			r = uint64(sx >> y)
		case OpUlt:
			r = b2u(x < y)
		case OpUle:
			r = b2u(x <= y)
		case OpSlt:
			r = b2u(sx < sy)
		case OpSle:
			r = b2u(sx <= sy)
		default:
			panic("evalTerm: op")
		}
	}
	if t.w == 0 {
		r &= 1
	} else {
		r &= mask(t.w)
	}
	memo[t.id] = r
	return r
}

func b2u(b bool) uint64 {
	if b {
		return 1
	}
	return 0
}
func maxInt(a, b int) int {
	if a > b {
		return a
	}
	return b
}

var _ = bits.Len

func (tt *Terms) Concat(a, b *Term) *Term {
	if a.IsConst() && b.IsConst() {
		return tt.Const(a.w+b.w, a.val<<uint(b.w)|b.val)
	}
	return tt.mk(OpConcat, a.w+b.w, 0, "", a, b)
}
