package main

import (
	"fmt"
	"go/types"

	"golang.org/x/tools/go/ssa"
)

// ---------------------------------------------------------------- symbolic-index pointers

func (c *Ctx) loadP(st *State, p *Ptr) Value {
	if p.sym == nil {
		return c.load(st, p)
	}
	o := c.getObj(st, p.obj)
	c.monitorAccess(st, p.obj, "read")
	arr := navigate(o.v, p.path).(*Array)
	return c.selectTree(arr.e[p.symOff:p.symOff+p.symN], p.sym, 0, p.symN)
}

func (c *Ctx) storeP(st *State, p *Ptr, val Value) {
	if p.sym == nil {
		c.store(st, p, val)
		return
	}
	o := c.getObj(st, p.obj)
	c.monitorAccess(st, p.obj, "write")
	nv := update(o.v, p.path, func(old Value) Value {
		arr := old.(*Array)
		n := &Array{e: append([]Value(nil), arr.e...)}
		for k := 0; k < p.symN; k++ {
			g := c.tt.Eq(p.sym, c.tt.Const(64, uint64(k)))
			n.e[p.symOff+k] = c.merge(g, val, arr.e[p.symOff+k])
		}
		return n
	})
	st.heap.set(p.obj, &Obj{v: nv, typ: o.typ, label: o.label, birth: o.birth})
}

// mapSymPtr turns a symbolic-index pointer into a union of concrete pointers and maps f over them.
func (c *Ctx) mapSymPtr(p *Ptr, f func(*Ptr) Value) Value {
	var alts []Alt
	for k := 0; k < p.symN; k++ {
		g := c.tt.Eq(p.sym, c.tt.Const(64, uint64(k)))
		alts = append(alts, Alt{g, f(&Ptr{obj: p.obj, path: pathAppend(p.path, p.symOff+k)})})
	}
	return c.mkUnion(alts)
}

// ---------------------------------------------------------------- maps

func (c *Ctx) mapVal(st *State, m *MapRef) *MapVal {
	c.monitorAccess(st, m.obj, "read")
	return c.getObj(st, m.obj).v.(*MapVal)
}

func (c *Ctx) setMapVal(st *State, m *MapRef, mv *MapVal) {
	o := c.getObj(st, m.obj)
	c.monitorAccess(st, m.obj, "write")
	st.heap.set(m.obj, &Obj{v: mv, typ: o.typ, label: o.label, birth: o.birth})
}

func (c *Ctx) mapLen(st *State, m *MapRef) *Term {
	tt := c.tt
	if m.obj == 0 {
		return tt.Const(64, 0)
	}
	mv := c.mapVal(st, m)
	n := tt.Const(64, 0)
	for _, e := range mv.entries {
		n = tt.Bin(OpAdd, n, tt.Ite(e.present, tt.Const(64, 1), tt.Const(64, 0)))
	}
	return n
}

// mapLookup returns (value, ok).
func (c *Ctx) mapLookup(st *State, m *MapRef, key Value, zero Value) (Value, *Term) {
	tt := c.tt
	if m.obj == 0 {
		return zero, tt.F
	}
	mv := c.mapVal(st, m)
	ok := tt.F
	var alts []Alt
	for i := len(mv.entries) - 1; i >= 0; i-- {
		e := mv.entries[i]
		if e.present.IsFalse() {
			continue
		}
		hit := tt.And(e.present, c.valEq(key, e.k))
		if hit.IsFalse() {
			continue
		}
		alts = append(alts, Alt{hit, e.v})
		ok = tt.Or(hit, ok)
	}
	if len(alts) == 0 {
		return zero, tt.F
	}
	if !ok.IsTrue() {
		alts = append(alts, Alt{tt.Not(ok), zero})
	}
	return c.mergeAltsAny(alts), ok
}

func (c *Ctx) mapUpdate(st *State, m *MapRef, key, val Value) {
	tt := c.tt
	mv := c.mapVal(st, m)
	n := &MapVal{entries: make([]MapEntry, 0, len(mv.entries)+1)}
	matched := tt.F
	for _, e := range mv.entries {
		if e.present.IsFalse() {
			n.entries = append(n.entries, e)
			continue
		}
		eq := c.valEq(key, e.k)
		hit := tt.And(e.present, eq)
		if hit.IsFalse() {
			n.entries = append(n.entries, e)
			continue
		}
		n.entries = append(n.entries, MapEntry{k: e.k, v: c.merge(hit, val, e.v), present: e.present})
		matched = tt.Or(matched, hit)
		if hit.IsTrue() {
			matched = tt.T
		}
	}
	if !matched.IsTrue() {
		// an absent slot with an identical key can be revived instead of growing the list
		n.entries = append(n.entries, MapEntry{k: key, v: val, present: tt.Not(matched)})
	}
	c.setMapVal(st, m, n)
}

func (c *Ctx) mapDelete(st *State, m *MapRef, key Value) {
	tt := c.tt
	mv := c.mapVal(st, m)
	n := &MapVal{entries: make([]MapEntry, len(mv.entries))}
	for i, e := range mv.entries {
		n.entries[i] = e
		if e.present.IsFalse() {
			continue
		}
		eq := c.valEq(key, e.k)
		n.entries[i].present = tt.And(e.present, tt.Not(eq))
	}
	c.setMapVal(st, m, n)
}

func (c *Ctx) execLookup(fs *FState, x *ssa.Lookup) *FState {
	base := c.operand(fs, x.X)
	switch b := base.(type) {
	case *MapRef:
		vt := x.X.Type().Underlying().(*types.Map).Elem()
		v, ok := c.mapLookup(fs.st, b, c.operand(fs, x.Index), c.zero(vt))
		if x.CommaOk {
			c.setReg(fs, x, &Tuple{v: []Value{v, ok}})
		} else {
			c.setReg(fs, x, v)
		}
		return fs
	case *Str:
		// string indexing in older SSA forms
		idx := c.toInt64(c.operand(fs, x.Index).(*Term), x.Index.Type())
		elems := make([]Value, len(b.b))
		for i, t := range b.b {
			elems[i] = t
		}
		if idx.IsConst() {
			i := int(int64(idx.val))
			if i < 0 || i >= len(elems) {
				c.obligation(fs.st, c.tt.T, "panic", "index:"+fs.fi.fn.Name(), "string index out of range at "+c.pos(x))
				return nil
			}
			c.setReg(fs, x, elems[i])
			return fs
		}
		bad := c.tt.Not(c.tt.Bin(OpUlt, idx, c.tt.Const(64, uint64(len(elems)))))
		c.obligation(fs.st, bad, "panic", "index:"+fs.fi.fn.Name(), "string index out of range at "+c.pos(x))
		if len(elems) == 0 {
			return nil
		}
		c.setReg(fs, x, c.selectTree(elems, idx, 0, len(elems)))
		return fs
	}
	panic(engineErr(fmt.Sprintf("Lookup on %T", base)))
}

// ---------------------------------------------------------------- range / next

func (c *Ctx) execRange(fs *FState, x *ssa.Range) *FState {
	base := c.operand(fs, x.X)
	it := &Iter{}
	switch b := base.(type) {
	case *Str:
		if b.opaque {
			panic(engineErr("INCONCLUSIVE range over opaque string"))
		}
		it.str = b
	case *MapRef:
		it.isMap = true
		it.m = b
		if b.obj != 0 {
			n := len(c.mapVal(fs.st, b).entries)
			for i := 0; i < n; i++ {
				if c.mapOrder == 1 {
					it.order = append(it.order, n-1-i)
				} else {
					it.order = append(it.order, i)
				}
			}
		}
	default:
		panic(engineErr(fmt.Sprintf("Range over %T", base)))
	}
	id := c.alloc(fs.st, nil, it, "iter")
	c.setReg(fs, x, &Ptr{obj: id})
	return fs
}

func (c *Ctx) execNext(fs *FState, x *ssa.Next) *FState {
	tt := c.tt
	p := c.operand(fs, x.Iter).(*Ptr)
	o := c.getObj(fs.st, p.obj)
	type outcome struct {
		g       *Term
		ok      *Term
		k, v    Value
		newIter *Iter
	}
	var outs []outcome
	var zeroK, zeroV Value
	tup := x.Type().(*types.Tuple)
	zeroK = c.zero(tup.At(1).Type())
	zeroV = c.zero(tup.At(2).Type())
	if it, single := o.v.(*Iter); single && !it.isMap && it.pos < len(it.str.b) {
		if b := it.str.b[it.pos]; upperBound(b) >= 0x80 {
			return c.execNextStringFork(fs, x, p, o, it)
		}
	}
	for _, al := range c.alts(o.v) {
		it := al.v.(*Iter)
		if !it.isMap {
			if it.pos >= len(it.str.b) {
				outs = append(outs, outcome{al.g, tt.F, zeroK, zeroV, it})
				continue
			}
			b := it.str.b[it.pos]
			kv := tt.Const(64, uint64(it.pos))
			if upperBound(b) < 0x80 {
				outs = append(outs, outcome{al.g, tt.T, kv, tt.ZExt(32, b), &Iter{str: it.str, pos: it.pos + 1}})
				continue
			}
			ascii := tt.Bin(OpUlt, b, tt.Const(8, 0x80))
			if !ascii.IsFalse() {
				outs = append(outs, outcome{tt.And(al.g, ascii), tt.T, kv, tt.ZExt(32, b), &Iter{str: it.str, pos: it.pos + 1}})
			}
			na := tt.And(al.g, tt.Not(ascii))
			if !na.IsFalse() {
				// UTF-8 decoding of a multi-byte (or invalid) sequence, as specified for range over strings
				end := it.pos + 4
				if end > len(it.str.b) {
					end = len(it.str.b)
				}
				r, sizes := c.decodeRune(it.str.b[it.pos:end])
				for k := 1; k <= 4; k++ {
					g := tt.And(na, sizes[k])
					if !g.IsFalse() {
						outs = append(outs, outcome{g, tt.T, kv, r, &Iter{str: it.str, pos: it.pos + k}})
					}
				}
			}
			continue
		}
		// map
		if it.m.obj == 0 {
			outs = append(outs, outcome{al.g, tt.F, zeroK, zeroV, it})
			continue
		}
		mv := c.mapVal(fs.st, it.m)
		skipped := al.g
		for j := it.pos; j < len(it.order); j++ {
			e := mv.entries[it.order[j]]
			g := tt.And(skipped, e.present)
			if !g.IsFalse() {
				outs = append(outs, outcome{g, tt.T, e.k, e.v, &Iter{isMap: true, m: it.m, order: it.order, pos: j + 1}})
			}
			skipped = tt.And(skipped, tt.Not(e.present))
			if skipped.IsFalse() {
				break
			}
		}
		if !skipped.IsFalse() {
			outs = append(outs, outcome{skipped, tt.F, zeroK, zeroV, &Iter{isMap: true, m: it.m, order: it.order, pos: len(it.order)}})
		}
	}
	if len(outs) == 0 {
		return nil
	}
	var okT *Term
	var kV, vV Value
	var iterAlts, kAlts, vAlts []Alt
	for i := len(outs) - 1; i >= 0; i-- {
		oc := outs[i]
		if okT == nil {
			okT = oc.ok
		} else {
			okT = tt.Ite(oc.g, oc.ok, okT)
		}
		iterAlts = append(iterAlts, Alt{oc.g, oc.newIter})
	}
	for _, oc := range outs {
		if oc.k != nil {
			kAlts = append(kAlts, Alt{oc.g, oc.k})
		}
		if oc.v != nil {
			vAlts = append(vAlts, Alt{oc.g, oc.v})
		}
	}
	kV = c.mergeAltsAny(kAlts)
	vV = c.mergeAltsAny(vAlts)
	ni := c.mkUnion(iterAlts)
	fs.st.heap.set(p.obj, &Obj{v: ni, label: "iter", birth: o.birth})
	c.setReg(fs, x, &Tuple{v: []Value{okT, kV, vV}})
	return fs
}

// concretizeIntPure: leaves of an ite-of-constants term (no solver).
func (c *Ctx) concretizeIntPure(t *Term) []iteLeaf {
	if t.IsConst() {
		return []iteLeaf{{c.tt.T, t.val}}
	}
	if !(t.ics > 0 && t.ics <= 4096) {
		panic(engineErr("UNMODELLED non-enumerable integer"))
	}
	var out []iteLeaf
	c.tt.iteLeaves(t, c.tt.T, &out)
	var res []iteLeaf
	for _, l := range out {
		found := false
		for i := range res {
			if res[i].v == l.v {
				res[i].g = c.tt.Or(res[i].g, l.g)
				found = true
			}
		}
		if !found {
			res = append(res, l)
		}
	}
	return res
}

func (c *Ctx) fnByName(name string) *ssa.Function {
	if f, ok := c.funcByName[name]; ok {
		return f
	}
	panic(engineErr("function not found in program: " + name))
}

// ---------------------------------------------------------------- select (only what watch.watch needs)

func (c *Ctx) execSelect(fs *FState, x *ssa.Select) *FState {
	tt := c.tt
	// ready receive cases in source order; a closed or non-empty channel is ready.
	var ready []int
	for i, s := range x.States {
		if s.Dir != types.RecvOnly {
			panic(engineErr("UNMODELLED select send case"))
		}
		ch := c.operand(fs, s.Chan).(*ChanRef)
		if ch.obj == 0 {
			continue
		}
		cv := c.getObj(fs.st, ch.obj).v.(*ChanVal)
		if len(cv.buf) > 0 || cv.closed {
			ready = append(ready, i)
		}
	}
	if len(ready) == 0 {
		if x.Blocking {
			// nothing will ever arrive in a synchronous run: the goroutine blocks forever -> path ends here
			c.trace = append(c.trace, "select-blocked")
			return nil
		}
		vals := []Value{tt.Const(64, ^uint64(0)), tt.F}
		for _, s := range x.States {
			vals = append(vals, c.zero(s.Chan.Type().Underlying().(*types.Chan).Elem()))
		}
		c.setReg(fs, x, &Tuple{v: vals})
		return fs
	}
	// deterministic choice among the ready cases, directed by the harness (vselectOrder): the first in source order, or the last
	pick := ready[0]
	if c.selectOrder == 1 {
		pick = ready[len(ready)-1]
	}
	vals := []Value{tt.Const(64, uint64(pick)), tt.T}
	for i, s := range x.States {
		et := s.Chan.Type().Underlying().(*types.Chan).Elem()
		if i != pick {
			vals = append(vals, c.zero(et))
			continue
		}
		ch := c.operand(fs, s.Chan).(*ChanRef)
		o := c.getObj(fs.st, ch.obj)
		cv := o.v.(*ChanVal)
		if len(cv.buf) > 0 {
			vals = append(vals, cv.buf[0])
			fs.st.heap.set(ch.obj, &Obj{v: &ChanVal{cap: cv.cap, closed: cv.closed, buf: append([]Value(nil), cv.buf[1:]...)}, typ: o.typ, label: o.label, birth: o.birth})
		} else {
			vals = append(vals, c.zero(et))
			vals[1] = tt.F
		}
	}
	c.setReg(fs, x, &Tuple{v: vals})
	return fs
}

// ---------------------------------------------------------------- monitors

// monitorAccess is called on every heap read/write; used by the lock-discipline monitor (vguard).
func (c *Ctx) monitorAccess(st *State, obj int, kind string) {
	if len(c.guards) == 0 || c.guardOff > 0 {
		return
	}
	for _, g := range c.guards {
		if !g.objs[obj] {
			continue
		}
		held := c.mutexHeld(st, g)
		if held.IsTrue() {
			continue
		}
		c.obligation(st, c.tt.Not(held), "assert", "lock:"+kind+":"+c.accessLabel(obj, st), fmt.Sprintf("%s of guarded object %s without holding the mutex (in %s)", kind, c.accessLabel(obj, st), c.where()))
	}
}

func (c *Ctx) accessLabel(obj int, st *State) string {
	if o := st.heap.get(obj); o != nil && o.label != "" {
		return o.label
	}
	return fmt.Sprintf("o%d", obj)
}

func (c *Ctx) mutexHeld(st *State, g *guardRec) *Term {
	o := st.heap.get(g.mutexObj)
	v := navigate(o.v, g.mutexPath).(*Struct)
	// sync.Mutex{state int32, sema uint32}: state != 0 means locked (set by our intrinsic)
	return c.tt.Not(c.tt.Eq(v.f[0].(*Term), c.tt.Const(32, 0)))
}

// decodeRune models utf8.DecodeRuneInString on the first (up to 4) bytes bs for a first byte >= 0x80
// (the caller handles ASCII). Returns the rune term and, per width 1..4, the guard under which that width applies.
// Validated against unicode/utf8 by the engine's unit test (decode_test.go).
func (c *Ctx) decodeRune(bs []*Term) (*Term, [5]*Term) {
	tt := c.tt
	key := ""
	for _, b := range bs {
		key += fmt.Sprintf("%d,", b.id)
	}
	if r, ok := c.decodeCache[key]; ok {
		return r.r, r.sizes
	}
	in := func(b *Term, lo, hi uint64) *Term {
		return tt.And(tt.Bin(OpUle, tt.Const(8, lo), b), tt.Bin(OpUle, b, tt.Const(8, hi)))
	}
	ext := func(b *Term, m uint64) *Term { return tt.ZExt(32, tt.Bin(OpBvAnd, b, tt.Const(8, m))) }
	shl := func(t *Term, k uint64) *Term { return tt.Bin(OpShl, t, tt.Const(32, k)) }
	or := func(a, b *Term) *Term { return tt.Bin(OpBvOr, a, b) }
	b0 := bs[0]
	F := tt.F
	two, three, four := F, F, F
	var r2, r3, r4 *Term
	if len(bs) >= 2 {
		b1 := bs[1]
		two = tt.And(in(b0, 0xC2, 0xDF), in(b1, 0x80, 0xBF))
		r2 = or(shl(ext(b0, 0x1F), 6), ext(b1, 0x3F))
		if len(bs) >= 3 {
			b2 := bs[2]
			b1ok3 := tt.OrN(
				tt.And(tt.Eq(b0, tt.Const(8, 0xE0)), in(b1, 0xA0, 0xBF)),
				tt.And(tt.Eq(b0, tt.Const(8, 0xED)), in(b1, 0x80, 0x9F)),
				tt.AndN(in(b0, 0xE1, 0xEF), tt.Not(tt.Eq(b0, tt.Const(8, 0xED))), in(b1, 0x80, 0xBF)),
			)
			three = tt.And(b1ok3, in(b2, 0x80, 0xBF))
			r3 = or(or(shl(ext(b0, 0x0F), 12), shl(ext(b1, 0x3F), 6)), ext(b2, 0x3F))
			if len(bs) >= 4 {
				b3 := bs[3]
				b1ok4 := tt.OrN(
					tt.And(tt.Eq(b0, tt.Const(8, 0xF0)), in(b1, 0x90, 0xBF)),
					tt.And(in(b0, 0xF1, 0xF3), in(b1, 0x80, 0xBF)),
					tt.And(tt.Eq(b0, tt.Const(8, 0xF4)), in(b1, 0x80, 0x8F)),
				)
				four = tt.AndN(b1ok4, in(b2, 0x80, 0xBF), in(b3, 0x80, 0xBF))
				r4 = or(or(or(shl(ext(b0, 0x07), 18), shl(ext(b1, 0x3F), 12)), shl(ext(b2, 0x3F), 6)), ext(b3, 0x3F))
			}
		}
	}
	r := tt.Const(32, 0xFFFD)
	if r4 != nil {
		r = tt.Ite(four, r4, r)
	}
	if r3 != nil {
		r = tt.Ite(three, r3, r)
	}
	if r2 != nil {
		r = tt.Ite(two, r2, r)
	}
	var sizes [5]*Term
	sizes[2], sizes[3], sizes[4] = two, three, four
	sizes[1] = tt.Not(tt.OrN(two, three, four))
	sizes[0] = F
	c.decodeCache[key] = decodeRes{r, sizes}
	return r, sizes
}

type decodeRes struct {
	r     *Term
	sizes [5]*Term
}

// execNextStringFork: the iterator has a definite position and the next byte is symbolic: fork the frame state into
// "ASCII byte" and one state per multi-byte width, so that every continuing state keeps a definite position.
func (c *Ctx) execNextStringFork(fs *FState, x *ssa.Next, p *Ptr, o *Obj, it *Iter) *FState {
	tt := c.tt
	b := it.str.b[it.pos]
	kv := tt.Const(64, uint64(it.pos))
	ascii := tt.Bin(OpUlt, b, tt.Const(8, 0x80))
	end := it.pos + 4
	if end > len(it.str.b) {
		end = len(it.str.b)
	}
	r, sizes := c.decodeRune(it.str.b[it.pos:end])
	mk := func(f *FState, g *Term, rv *Term, np int) {
		f.st.pc = append(f.st.pc, g)
		f.st.heap.set(p.obj, &Obj{v: &Iter{str: it.str, pos: np}, label: "iter", birth: o.birth})
		c.setReg(f, x, &Tuple{v: []Value{tt.T, kv, rv}})
	}
	na := tt.Not(ascii)
	naFeasible := c.feasible(fs.st, na)
	for k := 1; k <= 4 && naFeasible; k++ {
		g := tt.And(na, sizes[k])
		if g.IsFalse() {
			continue
		}
		f := fs.fork()
		mk(f, g, r, it.pos+k)
		f.spec = true
		c.forks = append(c.forks, f)
	}
	mk(fs, ascii, tt.ZExt(32, b), it.pos+1)
	return fs
}
