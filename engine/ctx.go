package main

import (
	"fmt"
	"os"
	"time"

	"go/types"
	"sort"
	"strings"

	"golang.org/x/tools/go/ssa"
)

// Ctx is one worker: term table, solver, program, per-case bookkeeping.
type Ctx struct {
	tt     *Terms
	solver *Solver
	prog   *ssa.Program
	cfg    *Config
	finfo  map[*ssa.Function]*FuncInfo
	idCtr  int

	globals    map[*ssa.Global]int // global -> object id
	initedPkgs map[*ssa.Package]bool
	funcByName map[string]*ssa.Function

	// per case
	presc      []int       // prescribed choices
	choiceLog  []choiceRec // choices taken (prescribed or defaulted)
	newCases   [][]int     // sibling prescriptions discovered
	nondetVars []nondetVar
	violations []*Violation
	reached    map[string]bool
	reachWit   map[string]map[string]uint64
	incon      []string
	assumes    []string
	depth      int

	// stats
	stInstr     int
	stBlocks    int
	stMerges    int
	stStates    int
	stOblig     int
	stDischarge int
	stSplits    int
	funcsSeen   map[string]int
	stubsHit    map[string]int
	intrHit     map[string]int

	lazyGlobals     []lazyGlobal
	pendingEnv      []Value
	stack           []string
	sentinels       map[string]*Iface
	usedNames       map[string]bool
	assertLabels    map[string]int
	freezes         []freezeRec
	dfas            map[string]*dfa
	regexps         map[int]string
	guardOff        int
	decodeCache     map[string]decodeRes
	forks           []*FState
	pendingObs      []pendingOb
	concrete        *replayFile
	liftGuard       *Term
	mergeStat       map[string]int
	plainErr        *ErrObj
	syncMaps        map[string]int
	inInit          bool
	dbgModel        map[string]uint64
	dbgPendingModel map[string]uint64
	dbgChoices      map[string]int
	dbgOrder        []dbgRec
	dbgPer          map[ssa.Instruction][]string
	dbgMemo         map[int]uint64

	// monitors
	guards      []*guardRec
	spawned     []*spawnRec
	trace       []string
	unwind      int
	stepLimit   int
	mapOrder    int // 0 insertion, 1 reverse
	selectOrder int // which ready select case is taken: 0 first in source order, 1 last
	checkAlts   bool
	eagerBranch bool
	verbose     bool
}

type lazyGlobal struct {
	id int
	o  *Obj
}

type choiceRec struct {
	name string
	n    int
	pick int
}

type nondetVar struct {
	name string
	kind string // bool,u8,u32,u64,i64,int,str
	t    *Term
	strN int
}

type Violation struct {
	Label    string            `json:"label"`
	Kind     string            `json:"kind"` // assert, panic, unwind
	Msg      string            `json:"msg"`
	Model    map[string]uint64 `json:"model"`
	Choices  []choiceRec       `json:"-"`
	ChoiceS  []string          `json:"choices"`
	Where    string            `json:"where"`
	Replayed string            `json:"replayed,omitempty"`
}

type guardRec struct {
	mutexObj  int
	mutexPath []int
	objs      map[int]bool
}

type spawnRec struct {
	fn   *Func
	args []Value
}

type State struct {
	pc   []*Term
	heap *Heap
}

func (s *State) fork() *State {
	n := &State{pc: append([]*Term(nil), s.pc...), heap: s.heap.fork()}
	return n
}

func (c *Ctx) newID() int { c.idCtr++; return c.idCtr }

func (c *Ctx) alloc(st *State, t types.Type, v Value, label string) int {
	id := c.newID()
	st.heap.set(id, &Obj{v: v, typ: t, label: label, birth: id})
	return id
}

func (c *Ctx) inconclusive(msg string) {
	for _, m := range c.incon {
		if m == msg {
			return
		}
	}
	c.incon = append(c.incon, msg)
}

// feasible: is pc ∧ extra satisfiable? unknown counts as feasible (and is recorded).
func (c *Ctx) feasible(st *State, extra *Term) bool {
	if extra.IsFalse() {
		return false
	}
	conj := append(append([]*Term(nil), st.pc...), extra)
	tq := time.Now()
	r, _ := c.solver.Check(conj, false, nil)
	if d := time.Since(tq).Seconds(); d > 0.3 && c.verbose {
		fmt.Fprintf(os.Stderr, "  slow feasibility in %s: %.2fs result=%d pc=%d\n", c.where(), d, r, len(st.pc))
	}
	if r == resUnknown {
		c.inconclusive("solver unknown on feasibility query")
		return true
	}
	return r == resSat
}

func (c *Ctx) allVars() []*Term {
	var vs []*Term
	for _, nv := range c.nondetVars {
		if nv.t != nil {
			vs = append(vs, nv.t)
		}
	}
	return c.tt.vars
}

// obligation: bad must be unsatisfiable under pc. The query is deferred: all obligations of a case are decided
// together at the end (flushObligations), one solver call when they all hold. Afterwards ¬bad joins the path condition.
func (c *Ctx) obligation(st *State, bad *Term, kind, label, msg string) {
	c.stOblig++
	if bad.IsFalse() {
		c.stDischarge++
		return
	}
	conj := c.tt.AndN(append(append([]*Term(nil), st.pc...), bad)...)
	if conj.IsFalse() {
		c.stDischarge++
	} else {
		c.pendingObs = append(c.pendingObs, pendingOb{conj: conj, kind: kind, label: label, msg: msg, where: c.where()})
	}
	st.pc = append(st.pc, c.tt.Not(bad))
}

type pendingOb struct {
	conj  *Term
	kind  string
	label string
	msg   string
	where string
}

// flushObligations decides the deferred obligations: unsat(OR of all) discharges all of them at once;
// otherwise the set is bisected to find the violated ones.
func (c *Ctx) flushObligations() {
	obs := c.pendingObs
	c.pendingObs = nil
	reported := map[string]bool{}
	var solve func(lo, hi int)
	solve = func(lo, hi int) {
		if lo >= hi {
			return
		}
		or := c.tt.F
		n := 0
		for i := lo; i < hi; i++ {
			if reported[obs[i].kind+"|"+obs[i].label] {
				continue
			}
			or = c.tt.Or(or, obs[i].conj)
			n++
		}
		if n == 0 {
			return
		}
		if hi-lo == 1 {
			tq := time.Now()
			r, model := c.solver.Check([]*Term{or}, true, c.tt.vars)
			if d := time.Since(tq).Seconds(); d > 0.5 && c.verbose {
				fmt.Fprintf(os.Stderr, "  slow obligation %s: %.2fs result=%d\n", obs[lo].label, d, r)
			}
			switch r {
			case resUnsat:
				c.stDischarge++
			case resUnknown:
				c.inconclusive("solver unknown on obligation " + obs[lo].label)
			case resSat:
				o := obs[lo]
				reported[o.kind+"|"+o.label] = true
				v := &Violation{Label: o.label, Kind: o.kind, Msg: o.msg, Model: model, Choices: append([]choiceRec(nil), c.choiceLog...), Where: o.where}
				for _, ch := range v.Choices {
					v.ChoiceS = append(v.ChoiceS, fmt.Sprintf("%s=%d/%d", ch.name, ch.pick, ch.n))
				}
				c.violations = append(c.violations, v)
			}
			return
		}
		tq := time.Now()
		r, _ := c.solver.Check([]*Term{or}, false, nil)
		if d := time.Since(tq).Seconds(); d > 0.5 && c.verbose {
			fmt.Fprintf(os.Stderr, "  obligation batch [%d,%d): %.2fs result=%d\n", lo, hi, d, r)
		}
		if r == resUnsat {
			c.stDischarge += n
			return
		}
		mid := (lo + hi) / 2
		solve(lo, mid)
		solve(mid, hi)
	}
	const batch = 256
	for lo := 0; lo < len(obs); lo += batch {
		hi := lo + batch
		if hi > len(obs) {
			hi = len(obs)
		}
		solve(lo, hi)
	}
}

func (c *Ctx) where() string {
	if len(c.stack) == 0 {
		return ""
	}
	n := len(c.stack)
	lo := n - 6
	if lo < 0 {
		lo = 0
	}
	return strings.Join(c.stack[lo:], " > ")
}

// ---------------------------------------------------------------- state merging

func (c *Ctx) commonPrefix(a, b []*Term) int {
	k := 0
	for k < len(a) && k < len(b) && a[k] == b[k] {
		k++
	}
	return k
}

// mergeStates merges b into a (returns merged state and the guard under which a's values apply).
func (c *Ctx) mergeStates(a, b *State) (*State, *Term) {
	k := c.commonPrefix(a.pc, b.pc)
	ga := c.tt.AndN(a.pc[k:]...)
	gb := c.tt.AndN(b.pc[k:]...)
	n := &State{pc: append([]*Term(nil), a.pc[:k]...)}
	or := c.tt.Or(ga, gb)
	if !or.IsTrue() {
		n.pc = append(n.pc, or)
	}
	n.heap = c.mergeHeaps(ga, a.heap, b.heap)
	c.stMerges++
	return n, ga
}

func (c *Ctx) mergeHeaps(g *Term, a, b *Heap) *Heap {
	n := a.fork()
	for ci := 0; ci < len(b.chunks); ci++ {
		cb := b.chunks[ci]
		if cb == nil {
			continue
		}
		var ca *chunk
		if ci < len(a.chunks) {
			ca = a.chunks[ci]
		}
		if ca == cb {
			continue
		}
		for k := 0; k < chunkSize; k++ {
			ob := cb.objs[k]
			if ob == nil {
				continue
			}
			var oa *Obj
			if ca != nil {
				oa = ca.objs[k]
			}
			if oa == ob {
				continue
			}
			id := ci<<chunkBits | k
			if oa == nil {
				n.set(id, ob)
				continue
			}
			if oa.v == ob.v {
				continue
			}
			if c.mergeStat != nil {
				before := len(c.tt.all)
				n.set(id, &Obj{v: c.merge(g, oa.v, ob.v), typ: oa.typ, label: oa.label, birth: oa.birth})
				key := oa.label
				if oa.typ != nil {
					key += ":" + oa.typ.String()
				}
				c.mergeStat[key] += len(c.tt.all) - before
				continue
			}
			n.set(id, &Obj{v: c.merge(g, oa.v, ob.v), typ: oa.typ, label: oa.label, birth: oa.birth})
		}
	}
	return n
}

// ---------------------------------------------------------------- frame state

type deferRec struct {
	call *ssa.CallCommon
	fn   Value
	args []Value
}

type FState struct {
	st          *State
	fi          *FuncInfo
	regs        []Value
	block       int
	iters       map[int]int // header block -> iteration
	defers      []deferRec
	key         []int
	lastChecked *Term
	loopTail    map[int]*Term // per loop header: last path-condition conjunct when the loop was entered
	spec        bool          // speculative state (non-ASCII fork of a string iteration): branch feasibility is checked eagerly
}

func (f *FState) fork() *FState {
	n := &FState{st: f.st.fork(), fi: f.fi, regs: append([]Value(nil), f.regs...), block: f.block, iters: f.iters, defers: append([]deferRec(nil), f.defers...), key: f.key, lastChecked: f.lastChecked, spec: f.spec, loopTail: f.loopTail}
	return n
}

func (f *FState) computeKey() {
	var k []int
	for _, h := range f.fi.loops[f.block] {
		k = append(k, f.fi.rpo[h], f.iters[h])
	}
	k = append(k, f.fi.rpo[f.block], 0)
	f.key = k
}

func keyLess(a, b []int) bool {
	for i := 0; i < len(a) && i < len(b); i++ {
		if a[i] != b[i] {
			return a[i] < b[i]
		}
	}
	return len(a) < len(b)
}
func keyEq(a, b []int) bool {
	if len(a) != len(b) {
		return false
	}
	for i := range a {
		if a[i] != b[i] {
			return false
		}
	}
	return true
}

func (c *Ctx) mergeF(a, b *FState) *FState {
	if len(a.defers) != len(b.defers) {
		return nil
	}
	for i := range a.defers {
		if a.defers[i].call != b.defers[i].call {
			return nil
		}
	}
	if c.itersDiffer(a.st.heap, b.st.heap) {
		return nil
	}
	st, g := c.mergeStates(a.st, b.st)
	n := &FState{st: st, fi: a.fi, block: a.block, iters: a.iters, key: a.key, spec: a.spec && b.spec, loopTail: a.loopTail}
	n.regs = make([]Value, len(a.regs))
	live := a.fi.liveIn[a.block]
	for i := range a.regs {
		if !live[i] {
			continue
		}
		if a.regs[i] == nil && b.regs[i] == nil {
			continue
		}
		n.regs[i] = c.merge(g, a.regs[i], b.regs[i])
	}
	n.defers = make([]deferRec, len(a.defers))
	for i := range a.defers {
		d := deferRec{call: a.defers[i].call}
		if a.defers[i].fn != nil || b.defers[i].fn != nil {
			d.fn = c.merge(g, a.defers[i].fn, b.defers[i].fn)
		}
		d.args = make([]Value, len(a.defers[i].args))
		for j := range d.args {
			d.args[j] = c.merge(g, a.defers[i].args[j], b.defers[i].args[j])
		}
		n.defers[i] = d
	}
	return n
}

// mergeMid merges two frame states positioned at the same instruction (after a split); all registers are merged.
func (c *Ctx) mergeMid(a, b *FState) *FState {
	st, g := c.mergeStates(a.st, b.st)
	n := &FState{st: st, fi: a.fi, block: a.block, iters: a.iters, key: a.key, defers: a.defers, loopTail: a.loopTail, spec: a.spec && b.spec, lastChecked: a.lastChecked}
	n.regs = make([]Value, len(a.regs))
	for i := range a.regs {
		if a.regs[i] == nil || b.regs[i] == nil {
			if a.regs[i] != nil {
				n.regs[i] = a.regs[i]
			} else {
				n.regs[i] = b.regs[i]
			}
			continue
		}
		n.regs[i] = c.merge(g, a.regs[i], b.regs[i])
	}
	if len(a.defers) == len(b.defers) {
		n.defers = make([]deferRec, len(a.defers))
		for i := range a.defers {
			d := deferRec{call: a.defers[i].call}
			if a.defers[i].fn != nil || b.defers[i].fn != nil {
				d.fn = c.merge(g, a.defers[i].fn, b.defers[i].fn)
			}
			d.args = make([]Value, len(a.defers[i].args))
			for j := range d.args {
				d.args[j] = c.merge(g, a.defers[i].args[j], b.defers[i].args[j])
			}
			n.defers[i] = d
		}
	}
	return n
}

func sortedKeys(m map[string]int) []string {
	var ks []string
	for k := range m {
		ks = append(ks, k)
	}
	sort.Strings(ks)
	return ks
}

// itersDiffer: do the two heaps hold a string iterator at different positions? Such states are kept apart
// (merging them would make every later rune a function of the position).
func (c *Ctx) itersDiffer(a, b *Heap) bool {
	n := len(a.chunks)
	if len(b.chunks) < n {
		n = len(b.chunks)
	}
	for ci := 0; ci < n; ci++ {
		ca, cb := a.chunks[ci], b.chunks[ci]
		if ca == cb || ca == nil || cb == nil {
			continue
		}
		for k := 0; k < chunkSize; k++ {
			oa, ob := ca.objs[k], cb.objs[k]
			if oa == ob || oa == nil || ob == nil {
				continue
			}
			ia, ok1 := oa.v.(*Iter)
			ib, ok2 := ob.v.(*Iter)
			if ok1 && ok2 && !ia.isMap && !ib.isMap && ia.pos != ib.pos {
				return true
			}
		}
	}
	return false
}

type replayFile struct {
	Entry   string            `json:"entry"`
	Choices map[string]int    `json:"choices"`
	Vars    map[string]uint64 `json:"vars"`
	Params  map[string]int    `json:"params"`
}

type dbgRec struct {
	in  ssa.Instruction
	val string
	fn  string
}

// dbgRecord (differential debugging, -diffreplay): records the value of the instruction's result under the model,
// for states whose path condition is true under the model.
func (c *Ctx) dbgRecord(fs *FState, in ssa.Instruction) {
	v, ok := in.(ssa.Value)
	if !ok {
		return
	}
	for _, t := range fs.st.pc {
		if evalTerm(t, c.dbgModel, c.dbgMemo) == 0 {
			return
		}
	}
	idx, ok := fs.fi.regIdx[v]
	if !ok || fs.regs[idx] == nil {
		return
	}
	val := c.dbgValue(fs.st, fs.regs[idx], 0)
	c.dbgOrder = append(c.dbgOrder, dbgRec{in, val, fs.fi.fn.String()})
	c.dbgPer[in] = append(c.dbgPer[in], val)
}

func (c *Ctx) dbgValue(st *State, v Value, depth int) string {
	if depth > 3 {
		return "…"
	}
	switch x := v.(type) {
	case *Term:
		return fmt.Sprint(evalTerm(x, c.dbgModel, c.dbgMemo))
	case *Str:
		if x.opaque {
			return "opaque"
		}
		b := make([]byte, len(x.b))
		for i, t := range x.b {
			b[i] = byte(evalTerm(t, c.dbgModel, c.dbgMemo))
		}
		return fmt.Sprintf("%q", string(b))
	case *Union:
		for _, al := range x.alts {
			if evalTerm(al.g, c.dbgModel, c.dbgMemo) != 0 {
				return c.dbgValue(st, al.v, depth)
			}
		}
		return "union-no-alt"
	case *Ptr:
		if x.obj == 0 {
			return "nil"
		}
		return "ptr"
	case *Slice:
		return fmt.Sprintf("slice(len %d)", x.n)
	case *Struct:
		s := "{"
		for _, f := range x.f {
			s += c.dbgValue(st, f, depth+1) + " "
		}
		return s + "}"
	case *Tuple:
		s := "("
		for _, f := range x.v {
			s += c.dbgValue(st, f, depth+1) + " "
		}
		return s + ")"
	case *Iface:
		if x.t == nil {
			return "nil-iface"
		}
		return "iface"
	case *MapRef:
		if x.obj == 0 {
			return "nil-map"
		}
		return "map"
	}
	return fmt.Sprintf("%T", v)
}
