package main

// Regular expressions over byte terms: regexp/syntax program -> on-the-fly subset construction,
// unrolled over the (concrete-length) string. Exact for ASCII patterns; a pattern whose classes
// contain non-ASCII runes is UNMODELLED. Input bytes >= 0x80 never match any class (they decode
// to runes >= 0x80 or RuneError, which no ASCII class contains).

import (
	"regexp/syntax"
	"sort"
	"strings"

	"golang.org/x/tools/go/ssa"
)

type dfa struct {
	prog   *syntax.Prog
	bounds []int // byte class boundaries: class k = [bounds[k], bounds[k+1])
}

func (c *Ctx) regexDFA(pat string) *dfa {
	if d, ok := c.dfas[pat]; ok {
		return d
	}
	re, err := syntax.Parse(pat, syntax.Perl)
	if err != nil {
		panic(engineErr("regex parse error: " + err.Error()))
	}
	prog, err := syntax.Compile(re.Simplify())
	if err != nil {
		panic(engineErr("regex compile error: " + err.Error()))
	}
	bset := map[int]bool{0: true, 128: true}
	for _, in := range prog.Inst {
		switch in.Op {
		case syntax.InstRune, syntax.InstRune1:
			if syntax.Flags(in.Arg)&syntax.FoldCase != 0 {
				panic(engineErr("UNMODELLED regex with case folding: " + pat))
			}
			rs := in.Rune
			if len(rs) == 1 {
				rs = []rune{rs[0], rs[0]}
			}
			for i := 0; i+1 < len(rs); i += 2 {
				lo, hi := int(rs[i]), int(rs[i+1])
				if lo < 128 {
					bset[lo] = true
					if hi+1 < 128 {
						bset[hi+1] = true
					}
				}
				if hi >= 128 {
					// classes reaching beyond ASCII (e.g. negated classes): bytes >= 0x80 would need rune decoding
					panic(engineErr("UNMODELLED regex with non-ASCII class: " + pat))
				}
			}
		case syntax.InstRuneAny, syntax.InstRuneAnyNotNL:
			panic(engineErr("UNMODELLED regex with '.': " + pat))
		}
	}
	var bounds []int
	for b := range bset {
		bounds = append(bounds, b)
	}
	sort.Ints(bounds)
	bounds = append(bounds, 256)
	d := &dfa{prog: prog, bounds: bounds}
	c.dfas[pat] = d
	return d
}

func (d *dfa) closure(pcs []int, atStart, atEnd bool) ([]int, bool) {
	seen := map[int]bool{}
	var out []int
	match := false
	var add func(pc int)
	add = func(pc int) {
		if seen[pc] {
			return
		}
		seen[pc] = true
		in := &d.prog.Inst[pc]
		switch in.Op {
		case syntax.InstAlt, syntax.InstAltMatch:
			add(int(in.Out))
			add(int(in.Arg))
		case syntax.InstCapture, syntax.InstNop:
			add(int(in.Out))
		case syntax.InstEmptyWidth:
			need := syntax.EmptyOp(in.Arg)
			var have syntax.EmptyOp
			if atStart {
				have |= syntax.EmptyBeginText | syntax.EmptyBeginLine
			}
			if atEnd {
				have |= syntax.EmptyEndText | syntax.EmptyEndLine
			}
			if need&^have == 0 {
				add(int(in.Out))
			} else if need&(syntax.EmptyWordBoundary|syntax.EmptyNoWordBoundary) != 0 {
				panic(engineErr("UNMODELLED regex word boundary"))
			}
		case syntax.InstMatch:
			match = true
		case syntax.InstFail:
		default:
			out = append(out, pc)
		}
	}
	for _, pc := range pcs {
		add(pc)
	}
	sort.Ints(out)
	return out, match
}

func (d *dfa) stepClass(pcs []int, lo int) []int {
	var out []int
	seen := map[int]bool{}
	r := rune(lo)
	for _, pc := range pcs {
		in := &d.prog.Inst[pc]
		if lo < 128 && in.MatchRune(r) && !seen[int(in.Out)] {
			seen[int(in.Out)] = true
			out = append(out, int(in.Out))
		}
	}
	return out
}

func key(pcs []int) string {
	var sb strings.Builder
	for _, p := range pcs {
		sb.WriteString(string(rune(p + 32)))
	}
	return sb.String()
}

// dfaMatch: term for "pattern matches s" (regexp.MatchString semantics: leftmost match anywhere unless anchored).
func (c *Ctx) dfaMatch(d *dfa, s *Str) *Term {
	tt := c.tt
	n := len(s.b)
	anchoredStart := d.prog.StartCond()&syntax.EmptyBeginText != 0
	type st struct {
		pcs []int
		g   *Term
	}
	cur := map[string]*st{}
	accepted := tt.F
	addState := func(m map[string]*st, raw []int, g *Term, i int) {
		pcs, match := d.closure(raw, i == 0, i == n)
		if match {
			accepted = tt.Or(accepted, g)
		}
		if len(pcs) == 0 {
			return
		}
		k := key(pcs)
		if e, ok := m[k]; ok {
			e.g = tt.Or(e.g, g)
		} else {
			m[k] = &st{pcs, g}
		}
	}
	addState(cur, []int{d.prog.Start}, tt.T, 0)
	for i := 0; i < n; i++ {
		next := map[string]*st{}
		b := s.b[i]
		// deterministic order
		var keys []string
		for k := range cur {
			keys = append(keys, k)
		}
		sort.Strings(keys)
		for _, k := range keys {
			e := cur[k]
			for ci := 0; ci+1 < len(d.bounds); ci++ {
				lo, hi := d.bounds[ci], d.bounds[ci+1]
				if lo >= 128 {
					continue
				}
				raw := d.stepClass(e.pcs, lo)
				if len(raw) == 0 {
					continue
				}
				var in *Term
				if hi-lo == 1 {
					in = tt.Eq(b, tt.Const(8, uint64(lo)))
				} else {
					in = tt.And(tt.Bin(OpUle, tt.Const(8, uint64(lo)), b), tt.Bin(OpUle, b, tt.Const(8, uint64(hi-1))))
				}
				g := tt.And(e.g, in)
				if g.IsFalse() {
					continue
				}
				addState(next, raw, g, i+1)
			}
		}
		if !anchoredStart {
			addState(next, []int{d.prog.Start}, tt.T, i+1)
		}
		cur = next
	}
	return accepted
}

func inRegexpMustCompile(c *Ctx, st *State, fn *ssa.Function, args []Value) (*State, Value) {
	pat, ok := concreteOf(args[0])
	if !ok {
		panic(engineErr("UNMODELLED regexp.MustCompile with non-constant pattern"))
	}
	rt := fn.Signature.Results().At(0).Type()
	id := c.alloc(st, nil, &Struct{}, "regexp:"+pat)
	_ = rt
	c.regexps[id] = pat
	return st, &Ptr{obj: id}
}

func inRegexpMatchString(c *Ctx, st *State, fn *ssa.Function, args []Value) (*State, Value) {
	p, ok := args[0].(*Ptr)
	if !ok {
		panic(engineErr("UNMODELLED MatchString on union regexp"))
	}
	pat, ok := c.regexps[p.obj]
	if !ok {
		panic(engineErr("MatchString on unknown regexp object"))
	}
	d := c.regexDFA(pat)
	return st, c.lift1(args[1], func(s *Str) Value { return c.dfaMatch(d, s) })
}
