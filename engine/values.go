package main

// Value model: scalars are terms, structure is concrete; differing structure is a guarded Union.

import (
	"fmt"
	"go/types"
	"sort"
	"strings"
	"sync/atomic"

	"golang.org/x/tools/go/ssa"
)

type Value interface{}

type Str struct {
	b      []*Term
	opaque bool // content unknown (fmt.Sprintf, err.Error()); inspecting it is INCONCLUSIVE
	tag    string
}

type Ptr struct {
	obj  int // 0 = nil
	path []int
	// symbolic last index: the pointer designates element path+[symOff+sym] of an array with symN valid positions
	sym    *Term
	symOff int
	symN   int
}

type Slice struct {
	obj       int // 0 = nil slice
	path      []int
	off, n, c int
}

type Struct struct{ f []Value }
type Array struct{ e []Value }

type Iface struct {
	t types.Type // nil = nil interface
	v Value
}

type MapRef struct{ obj int }
type ChanRef struct{ obj int }

type Func struct {
	fn      *ssa.Function // nil with builtin=="" => nil func
	env     []Value
	builtin string
	// bound method closure
	recv Value
}

type Tuple struct{ v []Value }

type Alt struct {
	g *Term
	v Value
}
type Union struct{ alts []Alt }

// opaque error object (fmt.Errorf / errors.New / stub errors)
type ErrObj struct {
	id    int
	wraps []Value // Iface values wrapped with %w (or joined)
	tag   string
	// plain: a dynamically created error with no sentinel anywhere in its chain; its identity is never compared,
	// so two plain errors merge into one canonical plain error (keeps merged heaps small)
	plain bool
}

type MapEntry struct {
	k, v    Value
	present *Term
}
type MapVal struct {
	entries []MapEntry
}

type ChanVal struct {
	buf    []Value
	closed bool
	cap    int
}

// map / string iterator
type Iter struct {
	isMap bool
	m     *MapRef
	str   *Str
	pos   int
	order []int // iteration order snapshot for maps (indices into entries)
}

type Obj struct {
	v     Value
	typ   types.Type
	label string
	birth int
}

// ---------------------------------------------------------------- heap (chunked copy-on-write)

const chunkBits = 6
const chunkSize = 1 << chunkBits

type chunk struct {
	objs  [chunkSize]*Obj
	owner int
}

type Heap struct {
	chunks []*chunk
	owner  int
}

var ownerCounter int64

func newOwner() int { return int(atomic.AddInt64(&ownerCounter, 1)) }

func (h *Heap) get(id int) *Obj {
	ci := id >> chunkBits
	if ci >= len(h.chunks) || h.chunks[ci] == nil {
		return nil
	}
	return h.chunks[ci].objs[id&(chunkSize-1)]
}

func (h *Heap) set(id int, o *Obj) {
	ci := id >> chunkBits
	for ci >= len(h.chunks) {
		h.chunks = append(h.chunks, nil)
	}
	ch := h.chunks[ci]
	if ch == nil {
		ch = &chunk{owner: h.owner}
		h.chunks[ci] = ch
	} else if ch.owner != h.owner {
		nc := *ch
		nc.owner = h.owner
		ch = &nc
		h.chunks[ci] = ch
	}
	ch.objs[id&(chunkSize-1)] = o
}

// fork returns a copy; both the receiver and the copy get fresh owners so shared chunks are never mutated.
func (h *Heap) fork() *Heap {
	n := &Heap{chunks: make([]*chunk, len(h.chunks)), owner: newOwner()}
	copy(n.chunks, h.chunks)
	h.owner = newOwner()
	return n
}

// ---------------------------------------------------------------- helpers

func isNilPtr(p *Ptr) bool { return p.obj == 0 }

func pathEq(a, b []int) bool {
	if len(a) != len(b) {
		return false
	}
	for i := range a {
		if a[i] != b[i] {
			return false
		}
	}
	return true
}

func pathAppend(p []int, i int) []int {
	n := make([]int, len(p)+1)
	copy(n, p)
	n[len(p)] = i
	return n
}

// shapeKey: alternatives with equal shapeKey can be merged into one alternative.
func shapeKey(v Value) string {
	switch x := v.(type) {
	case *Term:
		return "t"
	case *Str:
		if x.opaque {
			return "so"
		}
		// fully concrete strings keep their identity (merging them bytewise would make later path
		// manipulation symbolic); strings with symbolic bytes merge bytewise per length
		if cs, ok := strConcrete(x); ok && len(cs) > 0 {
			return "sc:" + cs
		}
		return fmt.Sprintf("s%d", len(x.b))
	case *Ptr:
		if x.sym != nil {
			return fmt.Sprintf("p%d%v[t%d+%d<%d]", x.obj, x.path, x.sym.id, x.symOff, x.symN)
		}
		return fmt.Sprintf("p%d%v", x.obj, x.path)
	case *Slice:
		return fmt.Sprintf("sl%d%v:%d:%d:%d", x.obj, x.path, x.off, x.n, x.c)
	case *Struct:
		return "st"
	case *Array:
		return "ar"
	case *Iface:
		if x.t == nil {
			return "inil"
		}
		if _, ok := x.v.(*ErrObj); ok {
			return "ierr"
		}
		return "i:" + x.t.String() + ":" + shapeKey(x.v)
	case *ErrObj:
		return "err"
	case *MapRef:
		return fmt.Sprintf("m%d", x.obj)
	case *ChanRef:
		return fmt.Sprintf("c%d", x.obj)
	case *Func:
		if x.fn == nil {
			return "fn:" + x.builtin
		}
		return fmt.Sprintf("fn:%p:%d", x.fn, len(x.env))
	case *Tuple:
		return "tu"
	case *Iter:
		return fmt.Sprintf("it%p%p:%d", x.m, x.str, x.pos)
	case nil:
		return "nil"
	}
	return fmt.Sprintf("?%T", v)
}

func (c *Ctx) alts(v Value) []Alt {
	if u, ok := v.(*Union); ok {
		return u.alts
	}
	return []Alt{{c.tt.T, v}}
}

// merge returns ite(g, a, b) at the value level.
func (c *Ctx) merge(g *Term, a, b Value) Value {
	if g.IsTrue() {
		return a
	}
	if g.IsFalse() {
		return b
	}
	if a == b {
		return a
	}
	switch x := a.(type) {
	case *Term:
		if y, ok := b.(*Term); ok {
			return c.tt.Ite(g, x, y)
		}
	case *Struct:
		if y, ok := b.(*Struct); ok && len(x.f) == len(y.f) {
			n := &Struct{f: make([]Value, len(x.f))}
			same := true
			for i := range x.f {
				n.f[i] = c.merge(g, x.f[i], y.f[i])
				if n.f[i] != x.f[i] {
					same = false
				}
			}
			if same {
				return x
			}
			return n
		}
	case *Array:
		if y, ok := b.(*Array); ok && len(x.e) == len(y.e) {
			n := &Array{e: make([]Value, len(x.e))}
			same := true
			for i := range x.e {
				n.e[i] = c.merge(g, x.e[i], y.e[i])
				if n.e[i] != x.e[i] {
					same = false
				}
			}
			if same {
				return x
			}
			return n
		}
	case *Tuple:
		if y, ok := b.(*Tuple); ok && len(x.v) == len(y.v) {
			n := &Tuple{v: make([]Value, len(x.v))}
			for i := range x.v {
				n.v[i] = c.merge(g, x.v[i], y.v[i])
			}
			return n
		}
	case *MapVal:
		if y, ok := b.(*MapVal); ok {
			return c.mergeMapVal(g, x, y)
		}
	case *ChanVal:
		if y, ok := b.(*ChanVal); ok && x.closed == y.closed && len(x.buf) == len(y.buf) {
			n := &ChanVal{closed: x.closed, cap: x.cap, buf: make([]Value, len(x.buf))}
			for i := range x.buf {
				n.buf[i] = c.merge(g, x.buf[i], y.buf[i])
			}
			return n
		}
		panic(engineErr("UNMODELLED merge of channels in different states"))
	}
	// general: union
	var out []Alt
	for _, al := range c.alts(a) {
		out = append(out, Alt{c.tt.And(g, al.g), al.v})
	}
	ng := c.tt.Not(g)
	for _, al := range c.alts(b) {
		out = append(out, Alt{c.tt.And(ng, al.g), al.v})
	}
	return c.mkUnion(out)
}

// mkUnion normalises a list of guarded non-union values: groups same-shape alternatives.
func (c *Ctx) mkUnion(in []Alt) Value {
	type grp struct {
		g *Term
		v Value
	}
	var keys []string
	groups := map[string]*grp{}
	for qi := 0; qi < len(in); qi++ {
		al := in[qi]
		if al.g.IsFalse() {
			continue
		}
		if u, ok := al.v.(*Union); ok {
			// flatten (appended alternatives are processed by this same loop)
			for _, a2 := range u.alts {
				in = append(in, Alt{c.tt.And(al.g, a2.g), a2.v})
			}
			continue
		}
		k := shapeKey(al.v)
		if g0, ok := groups[k]; ok {
			g0.v = c.mergeSameShape(al.g, al.v, g0.v)
			g0.g = c.tt.Or(g0.g, al.g)
		} else {
			groups[k] = &grp{al.g, al.v}
			keys = append(keys, k)
		}
	}
	if len(keys) == 0 {
		// every guard is false: the value is unreachable; keep some value of the right shape
		for _, al := range in {
			if _, isU := al.v.(*Union); !isU && al.v != nil {
				return al.v
			}
		}
		return nil
	}
	if len(keys) == 1 {
		return groups[keys[0]].v
	}
	u := &Union{}
	for _, k := range keys {
		u.alts = append(u.alts, Alt{groups[k].g, groups[k].v})
	}
	return u
}

// mergeSameShape: ite(g, a, b) for values with identical shapeKey (never produces a Union at top level).
func (c *Ctx) mergeSameShape(g *Term, a, b Value) Value {
	if a == b {
		return a
	}
	switch x := a.(type) {
	case *Term:
		return c.tt.Ite(g, x, b.(*Term))
	case *Str:
		y := b.(*Str)
		if x.opaque {
			return x
		}
		n := &Str{b: make([]*Term, len(x.b))}
		for i := range x.b {
			n.b[i] = c.tt.Ite(g, x.b[i], y.b[i])
		}
		return n
	case *Ptr, *Slice, *MapRef, *ChanRef, *Func, *Iter:
		return a
	case *Iface:
		y := b.(*Iface)
		if x.t == nil {
			return x
		}
		if ex, ok := x.v.(*ErrObj); ok {
			ey := y.v.(*ErrObj)
			if ex == ey {
				return x
			}
			if ex.plain && ey.plain {
				return &Iface{t: x.t, v: c.plainMerged()}
			}
			// merged opaque error: remembers both chains under their guards
			return &Iface{t: x.t, v: &ErrObj{id: c.newID(), tag: "merged", wraps: []Value{&Union{alts: []Alt{{g, x}, {c.tt.Not(g), y}}}}}}
		}
		return &Iface{t: x.t, v: c.merge(g, x.v, y.v)}
	case *ErrObj:
		return a
	}
	return c.merge(g, a, b)
}

func (c *Ctx) mergeMapVal(g *Term, x, y *MapVal) Value {
	n := &MapVal{}
	i := 0
	for i < len(x.entries) && i < len(y.entries) && c.sameKey(x.entries[i].k, y.entries[i].k) {
		ex, ey := x.entries[i], y.entries[i]
		n.entries = append(n.entries, MapEntry{k: ex.k, v: c.merge(g, ex.v, ey.v), present: c.tt.Ite(g, ex.present, ey.present)})
		i++
	}
	for _, e := range x.entries[i:] {
		n.entries = append(n.entries, MapEntry{k: e.k, v: e.v, present: c.tt.And(g, e.present)})
	}
	ng := c.tt.Not(g)
	for _, e := range y.entries[i:] {
		n.entries = append(n.entries, MapEntry{k: e.k, v: e.v, present: c.tt.And(ng, e.present)})
	}
	return n
}

// sameKey: syntactic identity of map keys.
func (c *Ctx) sameKey(a, b Value) bool {
	if a == b {
		return true
	}
	t := c.valEq(a, b)
	return t.IsTrue()
}

// valEq: Go == on two values of the same static type, as a Bool term.
func (c *Ctx) valEq(a, b Value) *Term {
	tt := c.tt
	if ua, ok := a.(*Union); ok {
		r := tt.F
		for _, al := range ua.alts {
			r = tt.Or(r, tt.And(al.g, c.valEq(al.v, b)))
		}
		return r
	}
	if ub, ok := b.(*Union); ok {
		r := tt.F
		for _, al := range ub.alts {
			r = tt.Or(r, tt.And(al.g, c.valEq(a, al.v)))
		}
		return r
	}
	switch x := a.(type) {
	case *Term:
		return tt.Eq(x, b.(*Term))
	case *Str:
		y := b.(*Str)
		if x.opaque || y.opaque {
			if x == y {
				return tt.T
			}
			panic(engineErr("INCONCLUSIVE comparison of opaque string " + x.tag + y.tag))
		}
		if len(x.b) != len(y.b) {
			return tt.F
		}
		r := tt.T
		for i := range x.b {
			r = tt.And(r, tt.Eq(x.b[i], y.b[i]))
			if r.IsFalse() {
				break
			}
		}
		return r
	case *Ptr:
		y := b.(*Ptr)
		if x.sym != nil || y.sym != nil {
			if x.obj != y.obj || !pathEq(x.path, y.path) {
				return tt.F
			}
			ix, iy := tt.Const(64, 0), tt.Const(64, 0)
			if x.sym != nil {
				ix = tt.Bin(OpAdd, x.sym, tt.Const(64, uint64(x.symOff)))
			}
			if y.sym != nil {
				iy = tt.Bin(OpAdd, y.sym, tt.Const(64, uint64(y.symOff)))
			}
			return tt.Eq(ix, iy)
		}
		return tt.Bool(x.obj == y.obj && pathEq(x.path, y.path))
	case *Struct:
		y := b.(*Struct)
		r := tt.T
		for i := range x.f {
			r = tt.And(r, c.valEq(x.f[i], y.f[i]))
		}
		return r
	case *Array:
		y := b.(*Array)
		r := tt.T
		for i := range x.e {
			r = tt.And(r, c.valEq(x.e[i], y.e[i]))
		}
		return r
	case *Iface:
		y, ok := b.(*Iface)
		if !ok {
			panic(engineErr(fmt.Sprintf("valEq iface vs %T", b)))
		}
		if x.t == nil || y.t == nil {
			return tt.Bool(x.t == nil && y.t == nil)
		}
		if ex, ok := x.v.(*ErrObj); ok {
			if ey, ok := y.v.(*ErrObj); ok {
				if ex == ey {
					return tt.T
				}
				if ex.tag == "merged" || ey.tag == "merged" {
					return c.errIdentity(x, y)
				}
				return tt.F
			}
			return tt.F
		}
		if _, ok := y.v.(*ErrObj); ok {
			return tt.F
		}
		if !types.Identical(x.t, y.t) {
			return tt.F
		}
		return c.valEq(x.v, y.v)
	case *MapRef:
		y := b.(*MapRef)
		return tt.Bool(x.obj == y.obj)
	case *ChanRef:
		y := b.(*ChanRef)
		return tt.Bool(x.obj == y.obj)
	case *Slice:
		// only comparison with nil is legal
		y := b.(*Slice)
		return tt.Bool(x.obj == 0 && y.obj == 0)
	case *Func:
		y := b.(*Func)
		return tt.Bool((x.fn == nil && x.builtin == "") && (y.fn == nil && y.builtin == ""))
	case *ErrObj:
		return tt.Bool(a == b)
	case nil:
		return tt.Bool(b == nil)
	}
	panic(engineErr(fmt.Sprintf("valEq unsupported %T", a)))
}

// errIdentity: identity of possibly merged opaque errors.
func (c *Ctx) errIdentity(x, y *Iface) *Term {
	tt := c.tt
	leaves := func(i *Iface) []Alt {
		var out []Alt
		var rec func(g *Term, v Value)
		rec = func(g *Term, v Value) {
			for _, al := range c.alts(v) {
				iv := al.v.(*Iface)
				if e, ok := iv.v.(*ErrObj); ok && e.tag == "merged" {
					rec(tt.And(g, al.g), e.wraps[0])
				} else {
					out = append(out, Alt{tt.And(g, al.g), iv})
				}
			}
		}
		rec(tt.T, i)
		return out
	}
	r := tt.F
	for _, a := range leaves(x) {
		for _, b := range leaves(y) {
			ai, bi := a.v.(*Iface), b.v.(*Iface)
			if ai.t == nil && bi.t == nil {
				r = tt.Or(r, tt.And(a.g, b.g))
			} else if ai.t != nil && bi.t != nil && ai.v == bi.v {
				r = tt.Or(r, tt.And(a.g, b.g))
			}
		}
	}
	return r
}

// ---------------------------------------------------------------- zero values

func (c *Ctx) zero(t types.Type) Value {
	switch u := t.Underlying().(type) {
	case *types.Basic:
		switch {
		case u.Info()&types.IsBoolean != 0:
			return c.tt.F
		case u.Info()&types.IsString != 0:
			return &Str{}
		case u.Info()&types.IsInteger != 0:
			return c.tt.Const(intWidth(u), 0)
		case u.Kind() == types.UnsafePointer:
			return &Ptr{}
		case u.Info()&types.IsFloat != 0:
			return c.tt.Const(64, 0) // floats are carried as raw bits and never computed on
		case u.Kind() == types.UntypedNil, u.Kind() == types.Invalid:
			return nil
		}
	case *types.Pointer:
		return &Ptr{}
	case *types.Slice:
		return &Slice{}
	case *types.Struct:
		s := &Struct{f: make([]Value, u.NumFields())}
		for i := range s.f {
			s.f[i] = c.zero(u.Field(i).Type())
		}
		return s
	case *types.Array:
		n := int(u.Len())
		a := &Array{e: make([]Value, n)}
		if n > 0 {
			z := c.zero(u.Elem())
			for i := range a.e {
				a.e[i] = z // immutable values may be shared
			}
		}
		return a
	case *types.Interface:
		return &Iface{}
	case *types.Map:
		return &MapRef{}
	case *types.Chan:
		return &ChanRef{}
	case *types.Signature:
		return &Func{}
	case *types.Tuple:
		tu := &Tuple{v: make([]Value, u.Len())}
		for i := range tu.v {
			tu.v[i] = c.zero(u.At(i).Type())
		}
		return tu
	}
	panic(engineErr("zero: unsupported type " + t.String()))
}

func intWidth(b *types.Basic) int {
	switch b.Kind() {
	case types.Int8, types.Uint8:
		return 8
	case types.Int16, types.Uint16:
		return 16
	case types.Int32, types.Uint32:
		return 32
	case types.Int, types.Uint, types.Int64, types.Uint64, types.Uintptr, types.UntypedInt, types.UntypedRune:
		if b.Kind() == types.UntypedRune {
			return 32
		}
		return 64
	}
	return 64
}

func isSigned(t types.Type) bool {
	b, ok := t.Underlying().(*types.Basic)
	return ok && b.Info()&types.IsInteger != 0 && b.Info()&types.IsUnsigned == 0
}

// ---------------------------------------------------------------- strings

func (c *Ctx) concreteStr(s string) *Str {
	r := &Str{b: make([]*Term, len(s))}
	for i := 0; i < len(s); i++ {
		r.b[i] = c.tt.Const(8, uint64(s[i]))
	}
	return r
}

// strConcrete returns the Go string if every byte is constant.
func strConcrete(s *Str) (string, bool) {
	if s.opaque {
		return "", false
	}
	var sb strings.Builder
	for _, b := range s.b {
		if !b.IsConst() {
			return "", false
		}
		sb.WriteByte(byte(b.val))
	}
	return sb.String(), true
}

func (c *Ctx) opaqueStr(tag string) *Str { return &Str{opaque: true, tag: tag} }

// ---------------------------------------------------------------- describing values (evidence / debugging)

func (c *Ctx) describe(v Value, depth int) string {
	if depth > 4 {
		return "…"
	}
	switch x := v.(type) {
	case *Term:
		if x.IsConst() {
			if x.w == 0 {
				return fmt.Sprint(x.val == 1)
			}
			return fmt.Sprint(x.val)
		}
		return fmt.Sprintf("<t%d:%d>", x.id, x.w)
	case *Str:
		if s, ok := strConcrete(x); ok {
			return fmt.Sprintf("%q", s)
		}
		if x.opaque {
			return "<opaque string>"
		}
		return fmt.Sprintf("<str len %d>", len(x.b))
	case *Ptr:
		if x.obj == 0 {
			return "nil"
		}
		return fmt.Sprintf("&o%d%v", x.obj, x.path)
	case *Slice:
		return fmt.Sprintf("slice(o%d%v,%d,%d,%d)", x.obj, x.path, x.off, x.n, x.c)
	case *Struct:
		var p []string
		for _, f := range x.f {
			p = append(p, c.describe(f, depth+1))
		}
		return "{" + strings.Join(p, " ") + "}"
	case *Array:
		return fmt.Sprintf("[%d]…", len(x.e))
	case *Iface:
		if x.t == nil {
			return "nil-iface"
		}
		return "iface(" + x.t.String() + ")"
	case *Union:
		var p []string
		for _, a := range x.alts {
			p = append(p, c.describe(a.v, depth+1))
		}
		sort.Strings(p)
		return "U(" + strings.Join(p, "|") + ")"
	case *MapRef:
		return fmt.Sprintf("map(o%d)", x.obj)
	case *Func:
		if x.fn != nil {
			return "func " + x.fn.String()
		}
		return "func nil/" + x.builtin
	case nil:
		return "<nil>"
	}
	return fmt.Sprintf("%T", v)
}

type engineErr string

func (e engineErr) Error() string { return string(e) }

func (c *Ctx) plainMerged() *ErrObj {
	if c.plainErr == nil {
		c.plainErr = &ErrObj{id: c.newID(), tag: "plain", plain: true}
	}
	return c.plainErr
}

func (c *Ctx) isPlainErrValue(v Value) bool {
	for _, al := range c.alts(v) {
		iv, ok := al.v.(*Iface)
		if !ok {
			return false
		}
		if iv.t == nil {
			continue
		}
		e, ok := iv.v.(*ErrObj)
		if !ok || !e.plain {
			return false
		}
	}
	return true
}
