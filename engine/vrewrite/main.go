package main

func main() {}
