package main

// vrewrite applies a check's redirect table (callee -> stub) to the source of a package, mechanically,
// so that the natively compiled replay runs the same code with the same environment stubs as the engine did.
// Input: JSON {dir, out, redirect:[{callee, stub, only_from}]}; output (stdout): JSON map original file -> rewritten file.

import (
	"bytes"
	"encoding/json"
	"fmt"
	"go/ast"
	"go/printer"
	"go/token"
	"go/types"
	"os"
	"path/filepath"

	"golang.org/x/tools/go/packages"
)

type redirect struct {
	Callee   string `json:"callee"`
	Stub     string `json:"stub"`
	OnlyFrom string `json:"only_from"`
}

type config struct {
	Dir      string     `json:"dir"`
	Out      string     `json:"out"`
	Redirect []redirect `json:"redirect"`
}

func main() {
	data, err := os.ReadFile(os.Args[1])
	if err != nil {
		fmt.Println(err)
		os.Exit(1)
	}
	var cfg config
	if err := json.Unmarshal(data, &cfg); err != nil {
		fmt.Println(err)
		os.Exit(1)
	}
	pcfg := &packages.Config{
		Mode: packages.NeedName | packages.NeedFiles | packages.NeedCompiledGoFiles | packages.NeedSyntax | packages.NeedTypes | packages.NeedTypesInfo | packages.NeedImports | packages.NeedDeps,
		Dir:  cfg.Dir,
		Env:  goEnv(),
	}
	pkgs, err := packages.Load(pcfg, ".")
	if err != nil || len(pkgs) == 0 {
		fmt.Println("load:", err)
		os.Exit(1)
	}
	pkg := pkgs[0]
	byCallee := map[string][]redirect{}
	for _, r := range cfg.Redirect {
		byCallee[r.Callee] = append(byCallee[r.Callee], r)
	}
	result := map[string]string{}
	for i, f := range pkg.Syntax {
		fname := pkg.CompiledGoFiles[i]
		changed := false
		var keep []string
		for _, decl := range f.Decls {
			fd, ok := decl.(*ast.FuncDecl)
			if !ok || fd.Body == nil {
				continue
			}
			fnName := fd.Name.Name
			ast.Inspect(fd.Body, func(n ast.Node) bool {
				call, ok := n.(*ast.CallExpr)
				if !ok {
					return true
				}
				var obj types.Object
				var recv ast.Expr
				switch fun := call.Fun.(type) {
				case *ast.SelectorExpr:
					obj = pkg.TypesInfo.Uses[fun.Sel]
					if sel, ok := pkg.TypesInfo.Selections[fun]; ok && sel.Kind() == types.MethodVal {
						recv = fun.X
					}
				case *ast.Ident:
					obj = pkg.TypesInfo.Uses[fun]
				}
				fo, ok := obj.(*types.Func)
				if !ok {
					return true
				}
				full := fo.FullName()
				for _, r := range byCallee[full] {
					if r.OnlyFrom != "" && r.OnlyFrom != fnName {
						continue
					}
					if recv != nil {
						call.Args = append([]ast.Expr{recv}, call.Args...)
					} else if se, ok := call.Fun.(*ast.SelectorExpr); ok {
						if id, ok := se.X.(*ast.Ident); ok {
							keep = append(keep, id.Name+"."+se.Sel.Name)
						}
					}
					call.Fun = ast.NewIdent(r.Stub)
					changed = true
					break
				}
				return true
			})
		}
		if !changed {
			continue
		}
		var buf bytes.Buffer
		if err := printer.Fprint(&buf, pkg.Fset, f); err != nil {
			fmt.Println("print:", err)
			os.Exit(1)
		}
		seen := map[string]bool{}
		for _, k := range keep {
			if !seen[k] {
				seen[k] = true
				fmt.Fprintf(&buf, "\nvar _ = %s\n", k)
			}
		}
		out := filepath.Join(cfg.Out, "rw_"+filepath.Base(fname))
		if err := os.WriteFile(out, buf.Bytes(), 0o644); err != nil {
			fmt.Println(err)
			os.Exit(1)
		}
		result[fname] = out
	}
	b, _ := json.Marshal(result)
	fmt.Println(string(b))
	_ = token.NoPos
}

func goEnv() []string {
	env := os.Environ()
	if os.Getenv("GOFLAGS") == "" {
		env = append(env, "GOFLAGS=-mod=mod")
	}
	return append(env, "GOPROXY=off", "GOSUMDB=off", "GOTOOLCHAIN=local")
}
