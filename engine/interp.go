package main

import (
	"fmt"
	"go/constant"
	"go/token"
	"go/types"
	"strings"

	"golang.org/x/tools/go/ssa"
)

// ---------------------------------------------------------------- operands and constants

func (c *Ctx) constValue(k *ssa.Const) Value {
	t := k.Type()
	if k.Value == nil {
		return c.zero(t)
	}
	switch u := t.Underlying().(type) {
	case *types.Basic:
		switch {
		case u.Info()&types.IsBoolean != 0:
			return c.tt.Bool(constant.BoolVal(k.Value))
		case u.Info()&types.IsString != 0:
			return c.concreteStr(constant.StringVal(k.Value))
		case u.Info()&types.IsInteger != 0:
			w := intWidth(u)
			if i, ok := constant.Int64Val(constant.ToInt(k.Value)); ok {
				return c.tt.Const(w, uint64(i))
			}
			ui, _ := constant.Uint64Val(constant.ToInt(k.Value))
			return c.tt.Const(w, ui)
		case u.Info()&types.IsFloat != 0:
			return c.tt.Const(64, 0)
		}
	case *types.TypeParam:
	}
	panic(engineErr("UNMODELLED constant of type " + t.String()))
}

func (c *Ctx) operand(fs *FState, v ssa.Value) Value {
	switch x := v.(type) {
	case *ssa.Const:
		return c.constValue(x)
	case *ssa.Global:
		return &Ptr{obj: c.globalObj(fs.st, x)}
	case *ssa.Function:
		return &Func{fn: x}
	case *ssa.Builtin:
		return &Func{builtin: x.Name()}
	}
	idx, ok := fs.fi.regIdx[v]
	if !ok {
		panic(engineErr(fmt.Sprintf("operand: unknown value %s in %s", v.Name(), fs.fi.fn)))
	}
	r := fs.regs[idx]
	if r == nil {
		if tu, ok := v.Type().(*types.Tuple); ok && tu.Len() == 0 {
			return nil
		}
		if c.zero(v.Type()) == nil {
			return nil
		}
		panic(engineErr(fmt.Sprintf("ENGINE-BUG dead register %s (%s) read in %s", v.Name(), v.String(), fs.fi.fn)))
	}
	return r
}

func (c *Ctx) setReg(fs *FState, v ssa.Value, val Value) {
	fs.regs[fs.fi.regIdx[v]] = val
}

func (c *Ctx) globalObj(st *State, g *ssa.Global) int {
	if id, ok := c.globals[g]; ok {
		return id
	}
	// lazily created global (only legal for packages whose init ran, or error sentinels)
	et := g.Type().(*types.Pointer).Elem()
	var v Value
	if g.Pkg != nil && !c.initedPkgs[g.Pkg] {
		if types.Identical(et, types.Universe.Lookup("error").Type()) {
			pp := g.Pkg.Pkg.Path()
			if (pp == "os" || pp == "io/fs" || pp == "internal/oserror") && strings.HasPrefix(g.Name(), "Err") {
				v = c.sentinel(g.Name())
			} else {
				v = c.sentinel(pp + "." + g.Name())
			}
		} else if c.cfg.allowZeroGlobal(g) {
			v = c.zero(et)
		} else {
			panic(engineErr("UNMODELLED read of global " + g.Pkg.Pkg.Path() + "." + g.Name() + " (package initialiser not executed)"))
		}
	} else {
		v = c.zero(et)
	}
	// globals live in the base heap of the worker: allocate into every state lazily via globalsHeap
	id := c.newID()
	c.globals[g] = id
	c.lazyGlobals = append(c.lazyGlobals, lazyGlobal{id, &Obj{v: v, typ: et, label: "global " + g.Name(), birth: id}})
	st.heap.set(id, c.lazyGlobals[len(c.lazyGlobals)-1].o)
	return id
}

var errType = types.Universe.Lookup("error").Type()

// ---------------------------------------------------------------- memory access

func (c *Ctx) getObj(st *State, id int) *Obj {
	o := st.heap.get(id)
	if o == nil {
		// lazily created globals may be missing in states forked earlier
		for _, lg := range c.lazyGlobals {
			if lg.id == id {
				st.heap.set(id, lg.o)
				return lg.o
			}
		}
		panic(engineErr(fmt.Sprintf("dangling object %d", id)))
	}
	return o
}

func navigate(v Value, path []int) Value {
	for _, i := range path {
		switch x := v.(type) {
		case *Struct:
			v = x.f[i]
		case *Array:
			v = x.e[i]
		default:
			panic(engineErr(fmt.Sprintf("navigate: %T at %v", v, path)))
		}
	}
	return v
}

func update(v Value, path []int, f func(Value) Value) Value {
	if len(path) == 0 {
		return f(v)
	}
	i := path[0]
	switch x := v.(type) {
	case *Struct:
		n := &Struct{f: append([]Value(nil), x.f...)}
		n.f[i] = update(x.f[i], path[1:], f)
		return n
	case *Array:
		n := &Array{e: append([]Value(nil), x.e...)}
		n.e[i] = update(x.e[i], path[1:], f)
		return n
	}
	panic(engineErr(fmt.Sprintf("update: %T at %v", v, path)))
}

// sameConst: structurally identical constant values (used to compress constant tables into runs).
func sameConst(a, b Value) bool {
	if a == b {
		return true
	}
	switch x := a.(type) {
	case *Term:
		y, ok := b.(*Term)
		return ok && x == y
	case *Struct:
		y, ok := b.(*Struct)
		if !ok || len(x.f) != len(y.f) {
			return false
		}
		for i := range x.f {
			if !sameConst(x.f[i], y.f[i]) {
				return false
			}
		}
		return true
	}
	return false
}

// selectTree builds elems[idx] as a balanced ite tree; runs of identical elements are compressed.
func (c *Ctx) selectTree(elems []Value, idx *Term, lo, hi int) Value {
	type run struct {
		start int
		v     Value
	}
	var runs []run
	for i := lo; i < hi; i++ {
		if len(runs) > 0 && sameConst(runs[len(runs)-1].v, elems[i]) {
			continue
		}
		runs = append(runs, run{i - lo, elems[i]})
	}
	var build func(a, b int) Value
	build = func(a, b int) Value {
		if b-a == 1 {
			return runs[a].v
		}
		mid := (a + b) / 2
		cond := c.tt.Bin(OpUlt, idx, c.tt.Const(idx.w, uint64(runs[mid].start)))
		return c.merge(cond, build(a, mid), build(mid, b))
	}
	return build(0, len(runs))
}

// load from a non-union pointer.
func (c *Ctx) load(st *State, p *Ptr) Value {
	o := c.getObj(st, p.obj)
	c.monitorAccess(st, p.obj, "read")
	return navigate(o.v, p.path)
}

func (c *Ctx) store(st *State, p *Ptr, val Value) {
	o := c.getObj(st, p.obj)
	c.monitorAccess(st, p.obj, "write")
	nv := update(o.v, p.path, func(Value) Value { return val })
	st.heap.set(p.obj, &Obj{v: nv, typ: o.typ, label: o.label, birth: o.birth})
}

// ---------------------------------------------------------------- function execution

type retRec struct {
	st  *State
	val Value
}

func (c *Ctx) callFunction(st *State, fn *ssa.Function, args []Value) (*State, Value) {
	name := fn.String()
	// environment stubs (redirect table) take precedence over intrinsics; then harness API and intrinsics
	if tgt, ok := c.cfg.redirect(c, fn); ok {
		c.stubsHit[name]++
		fn = tgt
		name = fn.String()
	}
	if h, ok := c.lookupIntrinsic(fn); ok {
		c.intrHit[name]++
		return h(c, st, fn, args)
	}
	if fn.Blocks == nil {
		panic(engineErr("UNMODELLED external function " + name))
	}
	if c.depth > 200 {
		panic(engineErr("call depth exceeded at " + name))
	}
	if fn.Synthetic == "package initializer" && fn.Pkg != nil {
		if !c.cfg.allowInit(fn.Pkg.Pkg.Path()) || c.initedPkgs[fn.Pkg] {
			return st, nil
		}
		c.initedPkgs[fn.Pkg] = true
	}
	c.depth++
	c.stack = append(c.stack, fn.Name())
	defer func() {
		if r := recover(); r != nil {
			if ee, ok := r.(engineErr); ok && !strings.Contains(string(ee), " @[") {
				r = engineErr(string(ee) + " @[" + c.where() + "]")
			}
			c.depth--
			c.stack = c.stack[:len(c.stack)-1]
			panic(r)
		}
		c.depth--
		c.stack = c.stack[:len(c.stack)-1]
	}()
	c.funcsSeen[name]++

	fi := c.info(fn)
	fs := &FState{st: st, fi: fi, regs: make([]Value, fi.nregs), block: 0}
	if len(st.pc) > 0 {
		// loop feasibility checks are only needed once the path condition has grown inside this frame
		fs.lastChecked = st.pc[len(st.pc)-1]
	}
	for i, p := range fn.Params {
		if i < len(args) {
			fs.regs[fi.regIdx[p]] = args[i]
		}
	}
	fs.computeKey()
	work := []*FState{fs}
	var rets []retRec
	for len(work) > 0 {
		// pick minimal key
		mi := 0
		for i := 1; i < len(work); i++ {
			if keyLess(work[i].key, work[mi].key) {
				mi = i
			}
		}
		cur := work[mi]
		work = append(work[:mi], work[mi+1:]...)
		// cluster the states with the same key: merge what is mergeable, run the rest separately
		clusters := []*FState{cur}
		var rest []*FState
		for _, w := range work {
			if !keyEq(w.key, cur.key) {
				rest = append(rest, w)
				continue
			}
			merged := false
			for ci, cl := range clusters {
				if m := c.mergeF(cl, w); m != nil {
					clusters[ci] = m
					merged = true
					break
				}
			}
			if !merged {
				clusters = append(clusters, w)
			}
		}
		work = rest
		for _, f := range clusters {
			succs, rr := c.execFrom(f, 0)
			work = append(work, succs...)
			rets = append(rets, rr...)
		}
	}
	if len(rets) == 0 {
		return nil, nil
	}
	out := rets[0]
	for _, r := range rets[1:] {
		ms, g := c.mergeStates(out.st, r.st)
		var mv Value
		if out.val != nil || r.val != nil {
			mv = c.merge(g, out.val, r.val)
		}
		out = retRec{ms, mv}
	}
	return out.st, out.val
}

// closure call
func (c *Ctx) callClosure(st *State, f *Func, args []Value) (*State, Value) {
	if f.fn == nil && f.builtin == "vswapper" {
		return c.swapElems(st, f.env[0].(*Slice), args[0], args[1]), nil
	}
	if f.fn == nil {
		panic(engineErr("call of nil/builtin func value " + f.builtin))
	}
	if f.recv != nil {
		args = append([]Value{f.recv}, args...)
	}
	if len(f.env) == 0 {
		return c.callFunction(st, f.fn, args)
	}
	// bind free variables: run with env through a wrapper frame
	return c.callWithEnv(st, f.fn, args, f.env)
}

func (c *Ctx) callWithEnv(st *State, fn *ssa.Function, args []Value, env []Value) (*State, Value) {
	c.pendingEnv = env
	return c.callFunction(st, fn, args)
}

// execFrom executes the instructions of fs's block starting at index start (relative to the first non-phi
// instruction). An instruction may fork the state (c.forks); every fork runs the rest of the block on its own.
func (c *Ctx) execFrom(fs *FState, start int) ([]*FState, []retRec) {
	fn := fs.fi.fn
	b := fn.Blocks[fs.block]
	if start == 0 {
		c.stBlocks++
		if fs.block == 0 && c.pendingEnv != nil {
			for i, fv := range fn.FreeVars {
				fs.regs[fs.fi.regIdx[fv]] = c.pendingEnv[i]
			}
			c.pendingEnv = nil
		}
	}
	instrs := b.Instrs[fs.fi.nphis[fs.block]:]
	for ii := start; ii < len(instrs); ii++ {
		in := instrs[ii]
		c.stInstr++
		if c.stepLimit > 0 && c.stInstr > c.stepLimit {
			panic(engineErr("UNWIND step budget exhausted"))
		}
		switch x := in.(type) {
		case *ssa.Jump:
			return c.edge(fs, b, b.Succs[0]), nil
		case *ssa.If:
			cond := c.operand(fs, x.Cond).(*Term)
			if cond.IsConst() {
				if cond.IsTrue() {
					return c.edge(fs, b, b.Succs[0]), nil
				}
				return c.edge(fs, b, b.Succs[1]), nil
			}
			var out []*FState
			tOK, fOK := true, true
			if c.eagerBranch || fs.spec {
				tOK = c.feasible(fs.st, cond)
				fOK = !tOK || c.feasible(fs.st, c.tt.Not(cond))
			}
			if tOK && fOK {
				f2 := fs.fork()
				fs.st.pc = append(fs.st.pc, cond)
				f2.st.pc = append(f2.st.pc, c.tt.Not(cond))
				out = append(out, c.edge(fs, b, b.Succs[0])...)
				out = append(out, c.edge(f2, b, b.Succs[1])...)
				c.stStates++
			} else if tOK {
				out = c.edge(fs, b, b.Succs[0])
			} else if fOK {
				out = c.edge(fs, b, b.Succs[1])
			}
			return out, nil
		case *ssa.Return:
			var val Value
			if len(x.Results) == 1 {
				val = c.operand(fs, x.Results[0])
			} else if len(x.Results) > 1 {
				tu := &Tuple{}
				for _, r := range x.Results {
					tu.v = append(tu.v, c.operand(fs, r))
				}
				val = tu
			}
			return nil, []retRec{{fs.st, val}}
		case *ssa.Panic:
			c.obligation(fs.st, c.tt.T, "panic", "panic:"+fn.Name(), "explicit panic in "+fn.String()+" at "+c.pos(in))
			return nil, nil
		default:
			saved := c.forks
			c.forks = nil
			fs = c.step(fs, in)
			forks := c.forks
			c.forks = saved
			if c.dbgModel != nil {
				if fs != nil {
					c.dbgRecord(fs, in)
				}
				for _, f := range forks {
					c.dbgRecord(f, in)
				}
			}
			var succs []*FState
			var rets []retRec
			for _, f := range forks {
				c.stStates++
				s2, r2 := c.execFrom(f, ii+1)
				succs = append(succs, s2...)
				rets = append(rets, r2...)
			}
			if fs == nil {
				return succs, rets
			}
			if len(forks) > 0 {
				s2, r2 := c.execFrom(fs, ii+1)
				return append(succs, s2...), append(rets, r2...)
			}
		}
	}
	return nil, nil
}

func (c *Ctx) pos(in ssa.Instruction) string {
	p := in.Pos()
	if p == token.NoPos {
		return "?"
	}
	ps := c.prog.Fset.Position(p)
	return fmt.Sprintf("%s:%d", ps.Filename, ps.Line)
}

// edge moves a frame state along from->to: evaluates phis, updates loop counters.
func (c *Ctx) edge(fs *FState, from, to *ssa.BasicBlock) []*FState {
	fi := fs.fi
	pi := -1
	for k, p := range to.Preds {
		if p == from {
			pi = k
			break
		}
	}
	np := fi.nphis[to.Index]
	if np > 0 {
		vals := make([]Value, np)
		for k := 0; k < np; k++ {
			vals[k] = c.operand(fs, to.Instrs[k].(*ssa.Phi).Edges[pi])
		}
		for k := 0; k < np; k++ {
			fs.regs[fi.regIdx[to.Instrs[k].(ssa.Value)]] = vals[k]
		}
		if c.dbgModel != nil {
			for k := 0; k < np; k++ {
				c.dbgRecord(fs, to.Instrs[k])
			}
		}
	}
	iters := map[int]int{}
	for _, h := range fi.loops[to.Index] {
		if fi.inLoop[h][from.Index] {
			n := fs.iters[h]
			if to.Index == h {
				n++
			}
			iters[h] = n
		} else {
			iters[h] = 0
		}
		if iters[h] > 0 && iters[h]%8 == 0 && to.Index == h && !c.eagerBranch && len(fs.st.pc) > 0 && fs.st.pc[len(fs.st.pc)-1] != fs.lastChecked {
			// lazy branching: make sure the loop is re-entered only on satisfiable paths
			if !c.feasible(fs.st, c.tt.T) {
				return nil
			}
			fs.lastChecked = fs.st.pc[len(fs.st.pc)-1]
		}
		var tail *Term
		if len(fs.st.pc) > 0 {
			tail = fs.st.pc[len(fs.st.pc)-1]
		}
		if iters[h] == 0 {
			if fs.loopTail == nil {
				fs.loopTail = map[int]*Term{}
			} else {
				nt := make(map[int]*Term, len(fs.loopTail)+1)
				for k, v := range fs.loopTail {
					nt[k] = v
				}
				fs.loopTail = nt
			}
			fs.loopTail[h] = tail
		}
		// the unwinding bound applies to loops whose continuation depends on symbolic data; a loop that has run
		// without adding to the path condition is concrete (e.g. filling a 256-entry table) and only capped
		concrete := fs.loopTail != nil && fs.loopTail[h] == tail
		if (iters[h] > c.unwind && !concrete) || iters[h] > 2000000 {
			if c.feasible(fs.st, c.tt.T) {
				c.inconclusive(fmt.Sprintf("UNWIND bound %d reached in %s", c.unwind, fi.fn.String()))
			}
			return nil
		}
	}
	fs.iters = iters
	fs.block = to.Index
	fs.computeKey()
	return []*FState{fs}
}

// ---------------------------------------------------------------- instruction step with union splitting

func (c *Ctx) structuralOperands(in ssa.Instruction) []ssa.Value {
	switch x := in.(type) {
	case *ssa.UnOp:
		if x.Op == token.MUL || x.Op == token.ARROW {
			return []ssa.Value{x.X}
		}
	case *ssa.BinOp:
		if isStringType(x.X.Type()) && x.Op != token.EQL && x.Op != token.NEQ {
			return []ssa.Value{x.X, x.Y}
		}
	case *ssa.Store:
		return []ssa.Value{x.Addr}
	case *ssa.FieldAddr:
		return []ssa.Value{x.X}
	case *ssa.IndexAddr:
		return []ssa.Value{x.X}
	case *ssa.Index:
		return []ssa.Value{x.X}
	case *ssa.Lookup:
		return []ssa.Value{x.X}
	case *ssa.Slice:
		return []ssa.Value{x.X}
	case *ssa.TypeAssert:
		return []ssa.Value{x.X}
	case *ssa.Convert:
		return []ssa.Value{x.X}
	case *ssa.Range:
		return []ssa.Value{x.X}
	case *ssa.Next:
		return []ssa.Value{x.Iter}
	case *ssa.MapUpdate:
		return []ssa.Value{x.Map}
	case *ssa.SliceToArrayPointer:
		return []ssa.Value{x.X}
	case *ssa.Send:
		return []ssa.Value{x.Chan}
	case *ssa.Select:
		var vs []ssa.Value
		for _, s := range x.States {
			vs = append(vs, s.Chan)
		}
		return vs
	case *ssa.Call:
		return c.callStructural(&x.Call)
	}
	return nil
}

func (c *Ctx) callStructural(cc *ssa.CallCommon) []ssa.Value {
	if cc.IsInvoke() {
		return []ssa.Value{cc.Value}
	}
	switch v := cc.Value.(type) {
	case *ssa.Function:
		// pure path/version helpers of the standard library run once per alternative of a union string
		// argument, so that concrete strings stay concrete inside them
		if splitCallFns[v.String()] {
			return cc.Args
		}
		if v.Pkg != nil && splitCallPkgs[v.Pkg.Pkg.Path()] {
			var out []ssa.Value
			for _, a := range cc.Args {
				if isStringType(a.Type()) {
					out = append(out, a)
				}
			}
			return out
		}
		return nil
	case *ssa.Builtin:
		switch v.Name() {
		case "append", "copy", "delete", "close":
			return cc.Args
		}
		return nil
	}
	return []ssa.Value{cc.Value}
}

var splitCallFns = map[string]bool{"sort.Strings": true}

var splitCallPkgs = map[string]bool{"path/filepath": true, "internal/filepathlite": true, "path": true, "golang.org/x/mod/semver": true}

func isStringType(t types.Type) bool {
	b, ok := t.Underlying().(*types.Basic)
	return ok && b.Info()&types.IsString != 0
}

func (c *Ctx) step(fs *FState, in ssa.Instruction) *FState {
	for _, op := range c.structuralOperands(in) {
		idx, ok := fs.fi.regIdx[op]
		if !ok {
			continue
		}
		if u, ok := fs.regs[idx].(*Union); ok {
			return c.splitExec(fs, in, idx, u)
		}
	}
	return c.exec1(fs, in)
}

func (c *Ctx) splitExec(fs *FState, in ssa.Instruction, idx int, u *Union) *FState {
	c.stSplits++
	var res *FState
	for i, al := range u.alts {
		if c.checkAlts && !c.feasible(fs.st, al.g) {
			continue
		}
		var f2 *FState
		if i == len(u.alts)-1 {
			f2 = fs
		} else {
			f2 = fs.fork()
		}
		f2.st.pc = append(f2.st.pc, al.g)
		f2.regs[idx] = al.v
		r := c.step(f2, in)
		if r == nil {
			continue
		}
		r.regs[idx] = u
		if res == nil {
			res = r
		} else {
			res = c.mergeMid(res, r)
		}
	}
	return res
}

// concretizeInt: possible values of an integer term with guards.
func (c *Ctx) concretizeInt(st *State, t *Term) []iteLeaf {
	if t.IsConst() {
		return []iteLeaf{{c.tt.T, t.val}}
	}
	if t.ics > 0 && t.ics <= 4096 {
		var out []iteLeaf
		c.tt.iteLeaves(t, c.tt.T, &out)
		// combine equal values
		var res []iteLeaf
		for _, l := range out {
			found := false
			for i := range res {
				if res[i].v == l.v {
					res[i].g = c.tt.Or(res[i].g, l.g)
					found = true
				}
			}
			if !found {
				res = append(res, l)
			}
		}
		return res
	}
	// solver enumeration
	var res []iteLeaf
	extra := []*Term{}
	for len(res) < 66 {
		conj := append(append([]*Term(nil), st.pc...), extra...)
		r, model := c.solver.Check(conj, true, c.tt.vars)
		if r == resUnsat {
			return res
		}
		if r == resUnknown {
			c.inconclusive("solver unknown while enumerating integer values")
			return res
		}
		memo := map[int]uint64{}
		v := evalTerm(t, model, memo)
		k := c.tt.Const(t.w, v)
		res = append(res, iteLeaf{c.tt.Eq(t, k), v})
		extra = append(extra, c.tt.Not(c.tt.Eq(t, k)))
	}
	panic(engineErr("UNMODELLED: integer with more than 64 feasible values needs to be concrete"))
}

// ---------------------------------------------------------------- single instruction on non-union structural operands

func (c *Ctx) exec1(fs *FState, in ssa.Instruction) *FState {
	tt := c.tt
	st := fs.st
	switch x := in.(type) {
	case *ssa.DebugRef:
		return fs
	case *ssa.Alloc:
		et := x.Type().(*types.Pointer).Elem()
		id := c.alloc(st, et, c.zero(et), x.Comment)
		c.setReg(fs, x, &Ptr{obj: id})
	case *ssa.UnOp:
		return c.execUnOp(fs, x)
	case *ssa.BinOp:
		a, b := c.operand(fs, x.X), c.operand(fs, x.Y)
		r, alive := c.binop(fs, x, x.Op, x.X.Type(), a, b)
		if !alive {
			return nil
		}
		c.setReg(fs, x, r)
	case *ssa.Store:
		p := c.operand(fs, x.Addr).(*Ptr)
		val := c.operand(fs, x.Val)
		if !c.checkNil(fs, p, in) {
			return nil
		}
		c.storeP(st, p, val)
	case *ssa.FieldAddr:
		p := c.operand(fs, x.X).(*Ptr)
		if !c.checkNil(fs, p, in) {
			return nil
		}
		if p.sym != nil {
			c.setReg(fs, x, c.mapSymPtr(p, func(q *Ptr) Value { return &Ptr{obj: q.obj, path: pathAppend(q.path, x.Field)} }))
		} else {
			c.setReg(fs, x, &Ptr{obj: p.obj, path: pathAppend(p.path, x.Field)})
		}
	case *ssa.Field:
		s := c.operand(fs, x.X).(*Struct)
		c.setReg(fs, x, s.f[x.Field])
	case *ssa.IndexAddr:
		return c.execIndexAddr(fs, x)
	case *ssa.Index:
		return c.execIndex(fs, x)
	case *ssa.Slice:
		return c.execSlice(fs, x)
	case *ssa.Lookup:
		return c.execLookup(fs, x)
	case *ssa.MapUpdate:
		m := c.operand(fs, x.Map).(*MapRef)
		if m.obj == 0 {
			c.obligation(st, tt.T, "panic", "nilmap:"+fs.fi.fn.Name(), "assignment to entry in nil map at "+c.pos(in))
			return nil
		}
		c.mapUpdate(st, m, c.operand(fs, x.Key), c.operand(fs, x.Value))
	case *ssa.MakeMap:
		id := c.alloc(st, x.Type(), &MapVal{}, "map")
		c.setReg(fs, x, &MapRef{obj: id})
	case *ssa.MakeSlice:
		return c.execMakeSlice(fs, x)
	case *ssa.MakeChan:
		sz := c.operand(fs, x.Size).(*Term)
		if !sz.IsConst() {
			panic(engineErr("UNMODELLED symbolic channel size"))
		}
		id := c.alloc(st, x.Type(), &ChanVal{cap: int(sz.val)}, "chan")
		c.setReg(fs, x, &ChanRef{obj: id})
	case *ssa.MakeClosure:
		f := &Func{fn: x.Fn.(*ssa.Function)}
		for _, b := range x.Bindings {
			f.env = append(f.env, c.operand(fs, b))
		}
		c.setReg(fs, x, f)
	case *ssa.MakeInterface:
		v := c.operand(fs, x.X)
		c.setReg(fs, x, &Iface{t: x.X.Type(), v: v})
	case *ssa.ChangeInterface:
		c.setReg(fs, x, c.operand(fs, x.X))
	case *ssa.ChangeType:
		c.setReg(fs, x, c.operand(fs, x.X))
	case *ssa.Convert:
		return c.execConvert(fs, x)
	case *ssa.TypeAssert:
		return c.execTypeAssert(fs, x)
	case *ssa.Extract:
		tu := c.operand(fs, x.Tuple).(*Tuple)
		c.setReg(fs, x, tu.v[x.Index])
	case *ssa.Range:
		return c.execRange(fs, x)
	case *ssa.Next:
		return c.execNext(fs, x)
	case *ssa.Call:
		return c.execCall(fs, x)
	case *ssa.Defer:
		d := deferRec{call: &x.Call}
		if !x.Call.IsInvoke() {
			if _, isB := x.Call.Value.(*ssa.Builtin); !isB {
				d.fn = c.operand(fs, x.Call.Value)
			}
		} else {
			d.fn = c.operand(fs, x.Call.Value)
		}
		for _, a := range x.Call.Args {
			d.args = append(d.args, c.operand(fs, a))
		}
		fs.defers = append(fs.defers, d)
	case *ssa.RunDefers:
		for len(fs.defers) > 0 {
			d := fs.defers[len(fs.defers)-1]
			fs.defers = fs.defers[:len(fs.defers)-1]
			ns, _ := c.invoke(fs, d.call, d.fn, d.args)
			if ns == nil {
				return nil
			}
			fs.st = ns
		}
	case *ssa.Go:
		sp := &spawnRec{}
		if x.Call.IsInvoke() {
			panic(engineErr("UNMODELLED go with interface method"))
		}
		fv := c.operand(fs, x.Call.Value)
		f, ok := fv.(*Func)
		if !ok {
			panic(engineErr("UNMODELLED go with union func"))
		}
		sp.fn = f
		for _, a := range x.Call.Args {
			sp.args = append(sp.args, c.operand(fs, a))
		}
		c.spawned = append(c.spawned, sp)
		c.trace = append(c.trace, "go "+f.fn.Name())
	case *ssa.Send:
		ch := c.operand(fs, x.Chan).(*ChanRef)
		o := c.getObj(st, ch.obj)
		cv := o.v.(*ChanVal)
		if cv.closed {
			c.obligation(st, tt.T, "panic", "sendclosed", "send on closed channel")
			return nil
		}
		if len(cv.buf) >= cv.cap {
			panic(engineErr("UNMODELLED blocking channel send"))
		}
		nv := &ChanVal{cap: cv.cap, buf: append(append([]Value(nil), cv.buf...), c.operand(fs, x.X))}
		st.heap.set(ch.obj, &Obj{v: nv, typ: o.typ, label: o.label, birth: o.birth})
	case *ssa.Select:
		return c.execSelect(fs, x)
	case *ssa.SliceToArrayPointer:
		panic(engineErr("UNMODELLED SliceToArrayPointer"))
	default:
		panic(engineErr(fmt.Sprintf("UNMODELLED instruction %T in %s", in, fs.fi.fn)))
	}
	return fs
}

// checkNil: obligation that p is not nil. Returns false if the state is dead.
func (c *Ctx) checkNil(fs *FState, p *Ptr, in ssa.Instruction) bool {
	if p.obj != 0 {
		return true
	}
	c.obligation(fs.st, c.tt.T, "panic", "nilderef:"+fs.fi.fn.Name(), "nil pointer dereference in "+fs.fi.fn.String()+" at "+c.pos(in))
	return false
}

func (c *Ctx) execUnOp(fs *FState, x *ssa.UnOp) *FState {
	tt := c.tt
	switch x.Op {
	case token.MUL:
		p := c.operand(fs, x.X).(*Ptr)
		if !c.checkNil(fs, p, x) {
			return nil
		}
		c.setReg(fs, x, c.loadP(fs.st, p))
	case token.NOT:
		c.setReg(fs, x, tt.Not(c.operand(fs, x.X).(*Term)))
	case token.SUB:
		c.setReg(fs, x, tt.BvNeg(c.operand(fs, x.X).(*Term)))
	case token.XOR:
		c.setReg(fs, x, tt.BvNot(c.operand(fs, x.X).(*Term)))
	case token.ARROW:
		ch := c.operand(fs, x.X).(*ChanRef)
		o := c.getObj(fs.st, ch.obj)
		cv := o.v.(*ChanVal)
		et := x.X.Type().Underlying().(*types.Chan).Elem()
		var val Value
		ok := tt.T
		if len(cv.buf) > 0 {
			val = cv.buf[0]
			nv := &ChanVal{cap: cv.cap, closed: cv.closed, buf: append([]Value(nil), cv.buf[1:]...)}
			fs.st.heap.set(ch.obj, &Obj{v: nv, typ: o.typ, label: o.label, birth: o.birth})
		} else if cv.closed {
			val = c.zero(et)
			ok = tt.F
		} else {
			panic(engineErr("UNMODELLED blocking channel receive"))
		}
		if x.CommaOk {
			c.setReg(fs, x, &Tuple{v: []Value{val, ok}})
		} else {
			c.setReg(fs, x, val)
		}
	default:
		panic(engineErr("UNMODELLED unop " + x.Op.String()))
	}
	return fs
}

func (c *Ctx) binop(fs *FState, in ssa.Instruction, op token.Token, xt types.Type, a, b Value) (Value, bool) {
	tt := c.tt
	switch op {
	case token.EQL:
		return c.valEq(a, b), true
	case token.NEQ:
		return tt.Not(c.valEq(a, b)), true
	}
	if isStringType(xt) {
		sa, sb := a.(*Str), b.(*Str)
		if sa.opaque || sb.opaque {
			if op == token.ADD {
				return c.opaqueStr("concat"), true
			}
			panic(engineErr("INCONCLUSIVE ordering of opaque strings"))
		}
		switch op {
		case token.ADD:
			n := &Str{b: make([]*Term, 0, len(sa.b)+len(sb.b))}
			n.b = append(append(n.b, sa.b...), sb.b...)
			return n, true
		case token.LSS:
			return c.strLess(sa, sb, false), true
		case token.LEQ:
			return c.strLess(sa, sb, true), true
		case token.GTR:
			return c.strLess(sb, sa, false), true
		case token.GEQ:
			return c.strLess(sb, sa, true), true
		}
		panic(engineErr("UNMODELLED string binop " + op.String()))
	}
	x, ok1 := a.(*Term)
	y, ok2 := b.(*Term)
	if !ok1 || !ok2 {
		panic(engineErr(fmt.Sprintf("UNMODELLED binop %s on %T,%T", op, a, b)))
	}
	if bt, ok := xt.Underlying().(*types.Basic); ok && bt.Info()&types.IsFloat != 0 {
		panic(engineErr("UNMODELLED floating point"))
	}
	signed := isSigned(xt)
	if x.w == 0 {
		switch op {
		case token.AND, token.LAND:
			return tt.And(x, y), true
		case token.OR, token.LOR:
			return tt.Or(x, y), true
		}
		panic(engineErr("UNMODELLED bool binop " + op.String()))
	}
	switch op {
	case token.ADD:
		return tt.Bin(OpAdd, x, y), true
	case token.SUB:
		return tt.Bin(OpSub, x, y), true
	case token.MUL:
		return tt.Bin(OpMul, x, y), true
	case token.QUO, token.REM:
		z := tt.Eq(y, tt.Const(y.w, 0))
		if !z.IsFalse() {
			c.obligation(fs.st, z, "panic", "divzero:"+fs.fi.fn.Name(), "integer divide by zero at "+c.pos(in))
			if z.IsTrue() {
				return nil, false
			}
		}
		if op == token.QUO {
			if signed {
				return tt.Bin(OpSDiv, x, y), true
			}
			return tt.Bin(OpUDiv, x, y), true
		}
		if signed {
			return tt.Bin(OpSRem, x, y), true
		}
		return tt.Bin(OpURem, x, y), true
	case token.AND:
		return tt.Bin(OpBvAnd, x, y), true
	case token.OR:
		return tt.Bin(OpBvOr, x, y), true
	case token.XOR:
		return tt.Bin(OpBvXor, x, y), true
	case token.AND_NOT:
		return tt.Bin(OpBvAnd, x, tt.BvNot(y)), true
	case token.SHL, token.SHR:
		// shift count may have a different width; Go: count >= width gives 0 (or sign fill)
		var cnt *Term
		if y.w < x.w {
			cnt = tt.ZExt(x.w, y)
		} else if y.w > x.w {
			big := tt.Bin(OpUle, tt.Const(y.w, uint64(x.w)), y)
			cnt = tt.Ite(big, tt.Const(x.w, uint64(x.w)), tt.Extract(x.w-1, 0, y))
		} else {
			cnt = y
		}
		if op == token.SHL {
			return tt.Bin(OpShl, x, cnt), true
		}
		if signed {
			return tt.Bin(OpAshr, x, cnt), true
		}
		return tt.Bin(OpLshr, x, cnt), true
	case token.LSS:
		if signed {
			return tt.Bin(OpSlt, x, y), true
		}
		return tt.Bin(OpUlt, x, y), true
	case token.LEQ:
		if signed {
			return tt.Bin(OpSle, x, y), true
		}
		return tt.Bin(OpUle, x, y), true
	case token.GTR:
		if signed {
			return tt.Bin(OpSlt, y, x), true
		}
		return tt.Bin(OpUlt, y, x), true
	case token.GEQ:
		if signed {
			return tt.Bin(OpSle, y, x), true
		}
		return tt.Bin(OpUle, y, x), true
	}
	panic(engineErr("UNMODELLED binop " + op.String()))
}

// strLess: lexicographic a < b (or <= if orEq) over byte terms.
func (c *Ctx) strLess(a, b *Str, orEq bool) *Term {
	tt := c.tt
	n := len(a.b)
	if len(b.b) < n {
		n = len(b.b)
	}
	// tail: all common bytes equal
	var tail *Term
	if len(a.b) < len(b.b) {
		tail = tt.T
	} else if len(a.b) == len(b.b) {
		tail = tt.Bool(orEq)
	} else {
		tail = tt.F
	}
	r := tail
	for i := n - 1; i >= 0; i-- {
		lt := tt.Bin(OpUlt, a.b[i], b.b[i])
		eq := tt.Eq(a.b[i], b.b[i])
		r = tt.Or(lt, tt.And(eq, r))
	}
	return r
}

func (c *Ctx) execIndexAddr(fs *FState, x *ssa.IndexAddr) *FState {
	tt := c.tt
	base := c.operand(fs, x.X)
	idx := c.toInt64(c.operand(fs, x.Index).(*Term), x.Index.Type())
	var obj int
	var path []int
	var off, n int
	switch b := base.(type) {
	case *Slice:
		obj, path, off, n = b.obj, b.path, b.off, b.n
	case *Ptr:
		if !c.checkNil(fs, b, x) {
			return nil
		}
		if b.sym != nil {
			panic(engineErr("UNMODELLED nested symbolic index"))
		}
		obj, path = b.obj, b.path
		at := x.X.Type().Underlying().(*types.Pointer).Elem().Underlying().(*types.Array)
		n = int(at.Len())
	default:
		panic(engineErr(fmt.Sprintf("IndexAddr on %T", base)))
	}
	if idx.IsConst() {
		i := int(int64(idx.val))
		if i < 0 || i >= n {
			c.obligation(fs.st, tt.T, "panic", "index:"+fs.fi.fn.Name(), fmt.Sprintf("index out of range [%d] with length %d at %s", i, n, c.pos(x)))
			return nil
		}
		c.setReg(fs, x, &Ptr{obj: obj, path: pathAppend(path, off+i)})
		return fs
	}
	bad := tt.Not(tt.Bin(OpUlt, idx, tt.Const(64, uint64(n))))
	if upperBound(idx) < uint64(n) {
		bad = tt.F
	}
	c.obligation(fs.st, bad, "panic", "index:"+fs.fi.fn.Name(), fmt.Sprintf("index out of range (length %d) at %s", n, c.pos(x)))
	if n == 0 || bad.IsTrue() {
		return nil
	}
	c.setReg(fs, x, &Ptr{obj: obj, path: path, sym: idx, symOff: off, symN: n})
	return fs
}

func (c *Ctx) toInt64(t *Term, ty types.Type) *Term {
	if t.w == 64 {
		return t
	}
	if isSigned(ty) {
		return c.tt.SExt(64, t)
	}
	return c.tt.ZExt(64, t)
}

func (c *Ctx) execIndex(fs *FState, x *ssa.Index) *FState {
	tt := c.tt
	base := c.operand(fs, x.X)
	idx := c.toInt64(c.operand(fs, x.Index).(*Term), x.Index.Type())
	var elems []Value
	switch b := base.(type) {
	case *Str:
		if b.opaque {
			panic(engineErr("INCONCLUSIVE indexing opaque string " + b.tag))
		}
		elems = make([]Value, len(b.b))
		for i, t := range b.b {
			elems[i] = t
		}
	case *Array:
		elems = b.e
	default:
		panic(engineErr(fmt.Sprintf("Index on %T", base)))
	}
	n := len(elems)
	if idx.IsConst() {
		i := int(int64(idx.val))
		if i < 0 || i >= n {
			c.obligation(fs.st, tt.T, "panic", "index:"+fs.fi.fn.Name(), fmt.Sprintf("index out of range [%d] with length %d at %s", i, n, c.pos(x)))
			return nil
		}
		c.setReg(fs, x, elems[i])
		return fs
	}
	bad := tt.Not(tt.Bin(OpUlt, idx, tt.Const(64, uint64(n))))
	if upperBound(idx) < uint64(n) {
		bad = tt.F
	}
	c.obligation(fs.st, bad, "panic", "index:"+fs.fi.fn.Name(), fmt.Sprintf("index out of range (length %d) at %s", n, c.pos(x)))
	if n == 0 || bad.IsTrue() {
		return nil
	}
	c.setReg(fs, x, c.selectTree(elems, idx, 0, n))
	return fs
}

func (c *Ctx) optInt(fs *FState, v ssa.Value, def int) *Term {
	if v == nil {
		return c.tt.Const(64, uint64(def))
	}
	return c.toInt64(c.operand(fs, v).(*Term), v.Type())
}

func (c *Ctx) execSlice(fs *FState, x *ssa.Slice) *FState {
	tt := c.tt
	base := c.operand(fs, x.X)
	var length, capacity int
	switch b := base.(type) {
	case *Str:
		if b.opaque {
			panic(engineErr("INCONCLUSIVE slicing opaque string " + b.tag))
		}
		length, capacity = len(b.b), len(b.b)
	case *Slice:
		length, capacity = b.n, b.c
	case *Ptr:
		if !c.checkNil(fs, b, x) {
			return nil
		}
		at := x.X.Type().Underlying().(*types.Pointer).Elem().Underlying().(*types.Array)
		length, capacity = int(at.Len()), int(at.Len())
	default:
		panic(engineErr(fmt.Sprintf("Slice on %T", base)))
	}
	lo := c.optInt(fs, x.Low, 0)
	hi := c.optInt(fs, x.High, length)
	mx := c.optInt(fs, x.Max, capacity)
	// Go: 0 <= lo <= hi <= max <= cap  (for strings hi <= len)
	limit := capacity
	if _, ok := base.(*Str); ok {
		limit = length
	}
	bad := tt.OrN(
		tt.Bin(OpSlt, lo, tt.Const(64, 0)),
		tt.Bin(OpSlt, hi, lo),
		tt.Bin(OpSlt, mx, hi),
		tt.Bin(OpSlt, tt.Const(64, uint64(limit)), mx),
	)
	if !bad.IsFalse() {
		c.obligation(fs.st, bad, "panic", "slicebounds:"+fs.fi.fn.Name(), fmt.Sprintf("slice bounds out of range (len %d cap %d) in %s at %s", length, capacity, fs.fi.fn.String(), c.pos(x)))
		if bad.IsTrue() {
			return nil
		}
	}
	var alts []Alt
	for _, l := range c.concretizeInt(fs.st, lo) {
		for _, h := range c.concretizeInt(fs.st, hi) {
			for _, m := range c.concretizeInt(fs.st, mx) {
				li, hi2, mi := int(int64(l.v)), int(int64(h.v)), int(int64(m.v))
				if li < 0 || hi2 < li || mi < hi2 || mi > limit {
					continue
				}
				g := tt.AndN(l.g, h.g, m.g)
				var v Value
				switch b := base.(type) {
				case *Str:
					v = &Str{b: b.b[li:hi2]}
				case *Slice:
					if b.obj == 0 {
						v = &Slice{}
					} else {
						v = &Slice{obj: b.obj, path: b.path, off: b.off + li, n: hi2 - li, c: mi - li}
					}
				case *Ptr:
					v = &Slice{obj: b.obj, path: b.path, off: li, n: hi2 - li, c: mi - li}
				}
				alts = append(alts, Alt{g, v})
			}
		}
	}
	r := c.mkUnion(alts)
	if r == nil {
		return nil
	}
	c.setReg(fs, x, r)
	return fs
}

func (c *Ctx) execMakeSlice(fs *FState, x *ssa.MakeSlice) *FState {
	n := c.toInt64(c.operand(fs, x.Len).(*Term), x.Len.Type())
	cp := c.toInt64(c.operand(fs, x.Cap).(*Term), x.Cap.Type())
	et := x.Type().Underlying().(*types.Slice).Elem()
	var alts []Alt
	for _, l := range c.concretizeInt(fs.st, n) {
		for _, k := range c.concretizeInt(fs.st, cp) {
			li, ki := int(int64(l.v)), int(int64(k.v))
			if li < 0 || ki < li {
				c.obligation(fs.st, c.tt.And(l.g, k.g), "panic", "makeslice:"+fs.fi.fn.Name(), "makeslice: len out of range at "+c.pos(x))
				continue
			}
			if ki > 1<<20 {
				panic(engineErr("UNMODELLED huge make([]T)"))
			}
			arr := &Array{e: make([]Value, ki)}
			z := c.zero(et)
			for i := range arr.e {
				arr.e[i] = z
			}
			id := c.alloc(fs.st, types.NewArray(et, int64(ki)), arr, "makeslice")
			alts = append(alts, Alt{c.tt.And(l.g, k.g), &Slice{obj: id, off: 0, n: li, c: ki}})
		}
	}
	r := c.mkUnion(alts)
	if r == nil {
		return nil
	}
	c.setReg(fs, x, r)
	return fs
}

func (c *Ctx) execConvert(fs *FState, x *ssa.Convert) *FState {
	tt := c.tt
	v := c.operand(fs, x.X)
	from, to := x.X.Type().Underlying(), x.Type().Underlying()
	fb, fok := from.(*types.Basic)
	tb, tok := to.(*types.Basic)
	switch {
	case fok && tok && fb.Info()&types.IsInteger != 0 && tb.Info()&types.IsInteger != 0:
		t := v.(*Term)
		w := intWidth(tb)
		if w > t.w {
			if isSigned(from) {
				c.setReg(fs, x, tt.SExt(w, t))
			} else {
				c.setReg(fs, x, tt.ZExt(w, t))
			}
		} else {
			c.setReg(fs, x, tt.Extract(w-1, 0, t))
		}
	case fok && tok && fb.Info()&types.IsString != 0 && tb.Info()&types.IsString != 0:
		c.setReg(fs, x, v)
	case fok && tok && fb.Info()&types.IsInteger != 0 && tb.Info()&types.IsString != 0:
		t := v.(*Term)
		if t.IsConst() {
			c.setReg(fs, x, c.concreteStr(string(rune(sext64(t.val, t.w)))))
		} else {
			// only the ASCII case is modelled symbolically
			t64 := c.toInt64(t, x.X.Type())
			bad := tt.Not(tt.Bin(OpUlt, t64, tt.Const(64, 0x80)))
			if c.feasible(fs.st, bad) {
				panic(engineErr("UNMODELLED string(rune) of a symbolic non-ASCII rune"))
			}
			c.setReg(fs, x, &Str{b: []*Term{tt.Extract(7, 0, t)}})
		}
	case tok && tb.Info()&types.IsString != 0:
		// []byte or []rune -> string
		sl := v.(*Slice)
		et := from.(*types.Slice).Elem().Underlying().(*types.Basic)
		if et.Kind() != types.Uint8 && et.Kind() != types.Byte {
			panic(engineErr("UNMODELLED []rune to string"))
		}
		s := &Str{b: make([]*Term, sl.n)}
		if sl.n > 0 {
			arr := navigate(c.getObj(fs.st, sl.obj).v, sl.path).(*Array)
			for i := 0; i < sl.n; i++ {
				s.b[i] = arr.e[sl.off+i].(*Term)
			}
		}
		c.setReg(fs, x, s)
	case fok && fb.Info()&types.IsString != 0:
		// string -> []byte / []rune
		s := v.(*Str)
		if s.opaque {
			panic(engineErr("INCONCLUSIVE converting opaque string"))
		}
		et := to.(*types.Slice).Elem().Underlying().(*types.Basic)
		if et.Kind() != types.Uint8 && et.Kind() != types.Byte {
			panic(engineErr("UNMODELLED string to []rune"))
		}
		arr := &Array{e: make([]Value, len(s.b))}
		for i, b := range s.b {
			arr.e[i] = b
		}
		id := c.alloc(fs.st, types.NewArray(et, int64(len(s.b))), arr, "bytes")
		c.setReg(fs, x, &Slice{obj: id, n: len(s.b), c: len(s.b)})
	case fok && tok && fb.Kind() == types.UnsafePointer || tok && tb.Kind() == types.UnsafePointer:
		c.setReg(fs, x, v)
	default:
		if fok && tok && (fb.Info()&types.IsFloat != 0 || tb.Info()&types.IsFloat != 0) {
			panic(engineErr("UNMODELLED floating point conversion"))
		}
		c.setReg(fs, x, v)
	}
	return fs
}

func (c *Ctx) execTypeAssert(fs *FState, x *ssa.TypeAssert) *FState {
	tt := c.tt
	iv := c.operand(fs, x.X).(*Iface)
	ok := false
	var res Value
	if iv.t != nil {
		if types.IsInterface(x.AssertedType) {
			if _, isErr := iv.v.(*ErrObj); isErr {
				ok = types.Implements(errType, x.AssertedType.Underlying().(*types.Interface)) || types.Identical(x.AssertedType, errType)
			} else {
				ok = types.Implements(iv.t, x.AssertedType.Underlying().(*types.Interface))
			}
			res = iv
		} else {
			if _, isErr := iv.v.(*ErrObj); isErr {
				ok = false
			} else {
				ok = types.Identical(iv.t, x.AssertedType)
			}
			res = iv.v
		}
	}
	if !ok {
		res = c.zero(x.AssertedType)
	}
	if x.CommaOk {
		c.setReg(fs, x, &Tuple{v: []Value{res, tt.Bool(ok)}})
		return fs
	}
	if !ok {
		c.obligation(fs.st, tt.T, "panic", "typeassert:"+fs.fi.fn.Name(), "interface conversion failed at "+c.pos(x))
		return nil
	}
	c.setReg(fs, x, res)
	return fs
}

// ---------------------------------------------------------------- calls

func (c *Ctx) execCall(fs *FState, x *ssa.Call) *FState {
	cc := &x.Call
	var fnv Value
	if cc.IsInvoke() {
		fnv = c.operand(fs, cc.Value)
	} else if _, isB := cc.Value.(*ssa.Builtin); !isB {
		fnv = c.operand(fs, cc.Value)
	}
	args := make([]Value, len(cc.Args))
	for i, a := range cc.Args {
		args[i] = c.operand(fs, a)
	}
	ns, res := c.invoke(fs, cc, fnv, args)
	if ns == nil {
		return nil
	}
	fs.st = ns
	if res != nil {
		c.setReg(fs, x, res)
	} else if x.Type() != nil {
		if tu, ok := x.Type().(*types.Tuple); !ok || tu.Len() > 0 {
			c.setReg(fs, x, c.zero(x.Type()))
		}
	}
	return fs
}

// invoke performs a call described by cc with already evaluated callee/receiver and args.
func (c *Ctx) invoke(fs *FState, cc *ssa.CallCommon, fnv Value, args []Value) (*State, Value) {
	st := fs.st
	if cc.IsInvoke() {
		iv, ok := fnv.(*Iface)
		if !ok {
			if u, isU := fnv.(*Union); isU {
				return c.invokeUnion(fs, cc, u, args)
			}
			panic(engineErr(fmt.Sprintf("invoke on %T", fnv)))
		}
		if iv.t == nil {
			c.obligation(st, c.tt.T, "panic", "nilderef:"+fs.fi.fn.Name(), "method call on nil interface ("+cc.Method.Name()+") in "+fs.fi.fn.String())
			return nil, nil
		}
		if e, isErr := iv.v.(*ErrObj); isErr {
			return c.errMethod(st, e, iv, cc.Method.Name(), args)
		}
		ms := c.prog.MethodSets.MethodSet(iv.t)
		sel := ms.Lookup(cc.Method.Pkg(), cc.Method.Name())
		if sel == nil {
			panic(engineErr("method not found: " + cc.Method.Name() + " on " + iv.t.String()))
		}
		m := c.prog.MethodValue(sel)
		if m == nil {
			panic(engineErr("abstract method " + cc.Method.Name()))
		}
		return c.callFunction(st, m, append([]Value{iv.v}, args...))
	}
	switch v := cc.Value.(type) {
	case *ssa.Builtin:
		return c.callBuiltin(fs, v.Name(), cc, args)
	case *ssa.Function:
		return c.callFunction(st, v, args)
	}
	switch f := fnv.(type) {
	case *Func:
		if f.fn == nil && f.builtin == "" {
			c.obligation(st, c.tt.T, "panic", "nilfunc:"+fs.fi.fn.Name(), "call of nil function in "+fs.fi.fn.String())
			return nil, nil
		}
		return c.callClosure(st, f, args)
	case *Union:
		return c.invokeUnion(fs, cc, f, args)
	}
	panic(engineErr(fmt.Sprintf("call of %T", fnv)))
}

// invokeUnion: call through a union callee (used by deferred calls; normal calls are split by step()).
func (c *Ctx) invokeUnion(fs *FState, cc *ssa.CallCommon, u *Union, args []Value) (*State, Value) {
	var outS *State
	var outV Value
	for _, al := range u.alts {
		f2 := &FState{st: fs.st.fork(), fi: fs.fi}
		f2.st.pc = append(f2.st.pc, al.g)
		if !c.feasible(f2.st, c.tt.T) {
			continue
		}
		s, v := c.invoke(f2, cc, al.v, args)
		if s == nil {
			continue
		}
		if outS == nil {
			outS, outV = s, v
		} else {
			ms, g := c.mergeStates(outS, s)
			if outV != nil || v != nil {
				outV = c.merge(g, outV, v)
			}
			outS = ms
		}
	}
	return outS, outV
}

func (c *Ctx) errMethod(st *State, e *ErrObj, iv *Iface, name string, args []Value) (*State, Value) {
	switch name {
	case "Error":
		return st, c.opaqueStr("err.Error()")
	}
	panic(engineErr("UNMODELLED method " + name + " on opaque error"))
}

func (c *Ctx) lenOf(v Value) *Term {
	tt := c.tt
	switch x := v.(type) {
	case *Str:
		if x.opaque {
			panic(engineErr("INCONCLUSIVE len of opaque string " + x.tag))
		}
		return tt.Const(64, uint64(len(x.b)))
	case *Slice:
		return tt.Const(64, uint64(x.n))
	case *Array:
		return tt.Const(64, uint64(len(x.e)))
	case *Union:
		var r *Term
		for i := len(x.alts) - 1; i >= 0; i-- {
			l := c.lenOf(x.alts[i].v)
			if r == nil {
				r = l
			} else {
				r = tt.Ite(x.alts[i].g, l, r)
			}
		}
		return r
	}
	panic(engineErr(fmt.Sprintf("len of %T", v)))
}

func (c *Ctx) callBuiltin(fs *FState, name string, cc *ssa.CallCommon, args []Value) (*State, Value) {
	tt := c.tt
	st := fs.st
	switch name {
	case "len":
		switch x := args[0].(type) {
		case *MapRef:
			return st, c.mapLen(st, x)
		case *ChanRef:
			return st, tt.Const(64, uint64(len(c.getObj(st, x.obj).v.(*ChanVal).buf)))
		case *Ptr: // *array
			at := cc.Args[0].Type().Underlying().(*types.Pointer).Elem().Underlying().(*types.Array)
			return st, tt.Const(64, uint64(at.Len()))
		case *Union:
			if _, isMap := x.alts[0].v.(*MapRef); isMap {
				var r *Term
				for i := len(x.alts) - 1; i >= 0; i-- {
					l := c.mapLen(st, x.alts[i].v.(*MapRef))
					if r == nil {
						r = l
					} else {
						r = tt.Ite(x.alts[i].g, l, r)
					}
				}
				return st, r
			}
		}
		return st, c.lenOf(args[0])
	case "cap":
		switch x := args[0].(type) {
		case *Slice:
			return st, tt.Const(64, uint64(x.c))
		case *Union:
			var r *Term
			for i := len(x.alts) - 1; i >= 0; i-- {
				l := tt.Const(64, uint64(x.alts[i].v.(*Slice).c))
				if r == nil {
					r = l
				} else {
					r = tt.Ite(x.alts[i].g, l, r)
				}
			}
			return st, r
		}
		panic(engineErr("cap of non-slice"))
	case "append":
		return st, c.doAppend(st, cc, args)
	case "copy":
		dst := args[0].(*Slice)
		n := dst.n
		switch src := args[1].(type) {
		case *Slice:
			if src.n < n {
				n = src.n
			}
			vals := make([]Value, n)
			for i := 0; i < n; i++ {
				vals[i] = c.load(st, &Ptr{obj: src.obj, path: pathAppend(src.path, src.off+i)})
			}
			for i := 0; i < n; i++ {
				c.store(st, &Ptr{obj: dst.obj, path: pathAppend(dst.path, dst.off+i)}, vals[i])
			}
		case *Str:
			if len(src.b) < n {
				n = len(src.b)
			}
			for i := 0; i < n; i++ {
				c.store(st, &Ptr{obj: dst.obj, path: pathAppend(dst.path, dst.off+i)}, src.b[i])
			}
		}
		return st, tt.Const(64, uint64(n))
	case "delete":
		m := args[0].(*MapRef)
		if m.obj != 0 {
			c.mapDelete(st, m, args[1])
		}
		return st, nil
	case "close":
		ch := args[0].(*ChanRef)
		o := c.getObj(st, ch.obj)
		cv := o.v.(*ChanVal)
		if cv.closed {
			c.obligation(st, tt.T, "panic", "closeclosed", "close of closed channel")
			return nil, nil
		}
		st.heap.set(ch.obj, &Obj{v: &ChanVal{cap: cv.cap, buf: cv.buf, closed: true}, typ: o.typ, label: o.label, birth: o.birth})
		return st, nil
	case "print", "println":
		return st, nil
	case "recover":
		return st, &Iface{}
	case "min", "max":
		a, b := args[0].(*Term), args[1].(*Term)
		signed := isSigned(cc.Args[0].Type())
		var lt *Term
		if signed {
			lt = tt.Bin(OpSlt, a, b)
		} else {
			lt = tt.Bin(OpUlt, a, b)
		}
		if name == "min" {
			return st, tt.Ite(lt, a, b)
		}
		return st, tt.Ite(lt, b, a)
	}
	panic(engineErr("UNMODELLED builtin " + name))
}

func (c *Ctx) doAppend(st *State, cc *ssa.CallCommon, args []Value) Value {
	s := args[0].(*Slice)
	et := cc.Args[0].Type().Underlying().(*types.Slice).Elem()
	var add []Value
	switch t := args[1].(type) {
	case *Slice:
		for i := 0; i < t.n; i++ {
			add = append(add, c.load(st, &Ptr{obj: t.obj, path: pathAppend(t.path, t.off+i)}))
		}
	case *Str:
		if t.opaque {
			panic(engineErr("INCONCLUSIVE append of opaque string"))
		}
		for _, b := range t.b {
			add = append(add, b)
		}
	default:
		panic(engineErr(fmt.Sprintf("append of %T", args[1])))
	}
	if len(add) == 0 {
		return s
	}
	need := s.n + len(add)
	if s.obj != 0 && need <= s.c {
		for i, v := range add {
			c.store(st, &Ptr{obj: s.obj, path: pathAppend(s.path, s.off+s.n+i)}, v)
		}
		return &Slice{obj: s.obj, path: s.path, off: s.off, n: need, c: s.c}
	}
	nc := 2 * s.c
	if nc < need {
		nc = need
	}
	arr := &Array{e: make([]Value, nc)}
	z := c.zero(et)
	for i := 0; i < s.n; i++ {
		arr.e[i] = c.load(st, &Ptr{obj: s.obj, path: pathAppend(s.path, s.off+i)})
	}
	for i, v := range add {
		arr.e[s.n+i] = v
	}
	for i := need; i < nc; i++ {
		arr.e[i] = z
	}
	id := c.alloc(st, types.NewArray(et, int64(nc)), arr, "append")
	return &Slice{obj: id, n: need, c: nc}
}

var _ = strings.Join

// upperBound: a cheap unsigned upper bound of a bit-vector term.
func upperBound(t *Term) uint64 {
	return ubRec(t, 0)
}

func ubRec(t *Term, d int) uint64 {
	if d > 30 {
		return mask(t.w)
	}
	switch t.op {
	case OpConst:
		return t.val
	case OpZExt:
		return ubRec(t.args[0], d+1)
	case OpExtract:
		if t.val&0xff == 0 {
			u := ubRec(t.args[0], d+1)
			if u <= mask(t.w) {
				return u
			}
		}
	case OpLshr:
		if t.args[1].IsConst() && t.args[1].val < 64 {
			return ubRec(t.args[0], d+1) >> t.args[1].val
		}
	case OpBvAnd:
		a, b := ubRec(t.args[0], d+1), ubRec(t.args[1], d+1)
		if a < b {
			return a
		}
		return b
	case OpIte:
		a, b := ubRec(t.args[1], d+1), ubRec(t.args[2], d+1)
		if a > b {
			return a
		}
		return b
	case OpConcat:
		return ubRec(t.args[0], d+1)<<uint(t.args[1].w) | ubRec(t.args[1], d+1)
	}
	return mask(t.w)
}
