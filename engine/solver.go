package main

// One live solver process per worker, SMT-LIB2 over a pipe. Terms are defined once
// (define-fun at level 0) and referenced by name in push/pop queries.

import (
	"bufio"
	"fmt"
	"io"
	"os"
	"os/exec"
	"sort"
	"strconv"
	"strings"
	"time"
)

type Solver struct {
	name     string
	cmd      *exec.Cmd
	in       io.WriteCloser
	out      *bufio.Reader
	defined  map[int]bool
	cache    map[string]int // query key -> result
	Queries  int
	CacheHit int
	Seconds  float64
	Unknowns int
	Errors   []string
	log      io.Writer
	timeoutS int
	dead     bool
}

const (
	resUnsat = iota
	resSat
	resUnknown
)

func newSolver(kind string, timeoutS int) (*Solver, error) {
	var cmd *exec.Cmd
	switch kind {
	case "z3":
		cmd = exec.Command("z3", "-in", fmt.Sprintf("-t:%d", timeoutS*1000))
	case "z3-new":
		// a memory cap per solver process: beyond it z3 gives up (the query, and the run, become inconclusive) instead of
		// the kernel's OOM killer choosing a victim
		mem := os.Getenv("VERIF_Z3_MEM_MB")
		if mem == "" {
			mem = "3072"
		}
		cmd = exec.Command("z3-new", "-in", fmt.Sprintf("-t:%d", timeoutS*1000), "-memory:"+mem)
	case "cvc5":
		cmd = exec.Command("cvc5", "--incremental", "--lang=smt2", "--produce-models", fmt.Sprintf("--tlimit-per=%d", timeoutS*1000))
	default:
		return nil, fmt.Errorf("unknown solver %s", kind)
	}
	in, err := cmd.StdinPipe()
	if err != nil {
		return nil, err
	}
	out, err := cmd.StdoutPipe()
	if err != nil {
		return nil, err
	}
	cmd.Stderr = cmd.Stdout
	if err := cmd.Start(); err != nil {
		return nil, err
	}
	s := &Solver{name: kind, cmd: cmd, in: in, out: bufio.NewReaderSize(out, 1<<20), defined: map[int]bool{}, cache: map[string]int{}, timeoutS: timeoutS}
	if kind == "cvc5" {
		s.send("(set-logic QF_BV)\n")
	} else {
		s.send("(set-option :produce-models true)\n")
	}
	return s, nil
}

func (s *Solver) Close() {
	if s == nil || s.cmd == nil {
		return
	}
	s.in.Close()
	done := make(chan struct{})
	go func() { s.cmd.Wait(); close(done) }()
	select {
	case <-done:
	case <-time.After(2 * time.Second):
		s.cmd.Process.Kill()
	}
}

func (s *Solver) send(txt string) {
	if s.log != nil {
		io.WriteString(s.log, txt)
	}
	io.WriteString(s.in, txt)
}

func (s *Solver) define(t *Term, sb *strings.Builder) {
	if t.op == OpConst || s.defined[t.id] {
		return
	}
	// iterative post-order to avoid deep recursion
	type fr struct {
		t *Term
		i int
	}
	stack := []fr{{t, 0}}
	for len(stack) > 0 {
		f := &stack[len(stack)-1]
		if f.t.op == OpConst || s.defined[f.t.id] {
			stack = stack[:len(stack)-1]
			continue
		}
		if f.i < len(f.t.args) {
			a := f.t.args[f.i]
			f.i++
			if a.op != OpConst && !s.defined[a.id] {
				stack = append(stack, fr{a, 0})
			}
			continue
		}
		x := f.t
		if x.op == OpVar {
			fmt.Fprintf(sb, "(declare-const %s %s)\n", smtName(x), smtSort(x.w))
		} else {
			fmt.Fprintf(sb, "(define-fun %s () %s %s)\n", smtName(x), smtSort(x.w), smtBody(x))
		}
		s.defined[x.id] = true
		stack = stack[:len(stack)-1]
	}
}

func queryKey(ts []*Term) string {
	ids := make([]int, 0, len(ts))
	for _, t := range ts {
		if t.IsTrue() {
			continue
		}
		ids = append(ids, t.id)
	}
	sort.Ints(ids)
	var sb strings.Builder
	last := -1
	for _, id := range ids {
		if id == last {
			continue
		}
		last = id
		sb.WriteString(strconv.Itoa(id))
		sb.WriteByte(',')
	}
	return sb.String()
}

func (s *Solver) readLine() (string, error) {
	line, err := s.out.ReadString('\n')
	return strings.TrimSpace(line), err
}

// Check decides satisfiability of the conjunction. If wantModel, and sat, returns values of vars.
func (s *Solver) Check(conj []*Term, wantModel bool, vars []*Term) (int, map[string]uint64) {
	for _, t := range conj {
		if t.IsFalse() {
			return resUnsat, nil
		}
	}
	key := queryKey(conj)
	if !wantModel {
		if r, ok := s.cache[key]; ok {
			s.CacheHit++
			return r, nil
		}
	}
	if key == "" && !wantModel {
		return resSat, nil
	}
	var sb strings.Builder
	for _, t := range conj {
		s.define(t, &sb)
	}
	if wantModel {
		for _, v := range vars {
			s.define(v, &sb)
		}
	}
	sb.WriteString("(push 1)\n")
	for _, t := range conj {
		if t.IsTrue() {
			continue
		}
		fmt.Fprintf(&sb, "(assert %s)\n", smtName(t))
	}
	sb.WriteString("(check-sat)\n")
	t0 := time.Now()
	s.send(sb.String())
	s.Queries++
	res := resUnknown
	for {
		line, err := s.readLine()
		if err != nil {
			s.Errors = append(s.Errors, "solver died: "+err.Error())
			s.Unknowns++
			s.dead = true
			return resUnknown, nil
		}
		if line == "" {
			continue
		}
		if line == "sat" {
			res = resSat
			break
		}
		if line == "unsat" {
			res = resUnsat
			break
		}
		if line == "unknown" || line == "timeout" {
			res = resUnknown
			break
		}
		if strings.HasPrefix(line, "(error") {
			s.Errors = append(s.Errors, line)
			continue
		}
		s.Errors = append(s.Errors, "unexpected: "+line)
	}
	s.Seconds += time.Since(t0).Seconds()
	var model map[string]uint64
	if res == resSat && wantModel && len(vars) > 0 {
		var q strings.Builder
		q.WriteString("(get-value (")
		for _, v := range vars {
			q.WriteString(smtName(v))
			q.WriteByte(' ')
		}
		q.WriteString("))\n")
		s.send(q.String())
		model = map[string]uint64{}
		// read a balanced s-expression
		depth, started := 0, false
		var buf strings.Builder
		for !started || depth > 0 {
			line, err := s.readLine()
			if err != nil {
				break
			}
			buf.WriteString(line)
			buf.WriteByte(' ')
			for _, ch := range line {
				if ch == '(' {
					depth++
					started = true
				} else if ch == ')' {
					depth--
				}
			}
		}
		parseModel(buf.String(), model)
	}
	if res == resUnknown {
		s.Unknowns++
	}
	s.send("(pop 1)\n")
	if len(s.Errors) > 0 && res != resUnknown {
		// any error line makes the verdict untrustworthy
		res = resUnknown
		s.Unknowns++
	}
	if !wantModel {
		s.cache[key] = res
	}
	return res, model
}

func parseModel(txt string, model map[string]uint64) {
	// ((|name| #x0a) (|n2| true) ...)
	i := 0
	for i < len(txt) {
		j := strings.Index(txt[i:], "(|")
		if j < 0 {
			break
		}
		i += j + 2
		k := strings.Index(txt[i:], "|")
		if k < 0 {
			break
		}
		name := txt[i : i+k]
		i += k + 1
		e := strings.Index(txt[i:], ")")
		if e < 0 {
			break
		}
		val := strings.TrimSpace(txt[i : i+e])
		i += e + 1
		switch {
		case val == "true":
			model[name] = 1
		case val == "false":
			model[name] = 0
		case strings.HasPrefix(val, "#x"):
			v, _ := strconv.ParseUint(val[2:], 16, 64)
			model[name] = v
		case strings.HasPrefix(val, "#b"):
			v, _ := strconv.ParseUint(val[2:], 2, 64)
			model[name] = v
		case strings.HasPrefix(val, "(_ bv"):
			f := strings.Fields(val[5:])
			v, _ := strconv.ParseUint(f[0], 10, 64)
			model[name] = v
		}
	}
}
