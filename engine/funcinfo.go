package main

// Per-function static information: register numbering, RPO, natural loops, liveness.

import (
	"golang.org/x/tools/go/ssa"
)

type FuncInfo struct {
	fn     *ssa.Function
	regIdx map[ssa.Value]int
	nregs  int
	rpo    []int          // block index -> rpo number
	loops  [][]int        // block index -> chain of loop header block indices, outermost first
	inLoop []map[int]bool // header block index -> set of member block indices (indexed by header)
	liveIn [][]bool       // block index -> reg live after the phis of the block
	nphis  []int          // number of leading phi instructions per block
	ninstr int
}

func (c *Ctx) info(fn *ssa.Function) *FuncInfo {
	if fi, ok := c.finfo[fn]; ok {
		return fi
	}
	fi := buildFuncInfo(fn)
	c.finfo[fn] = fi
	return fi
}

func buildFuncInfo(fn *ssa.Function) *FuncInfo {
	fi := &FuncInfo{fn: fn, regIdx: map[ssa.Value]int{}}
	add := func(v ssa.Value) {
		if _, ok := fi.regIdx[v]; !ok {
			fi.regIdx[v] = fi.nregs
			fi.nregs++
		}
	}
	for _, p := range fn.Params {
		add(p)
	}
	for _, fv := range fn.FreeVars {
		add(fv)
	}
	nb := len(fn.Blocks)
	fi.nphis = make([]int, nb)
	for _, b := range fn.Blocks {
		for i, in := range b.Instrs {
			fi.ninstr++
			if v, ok := in.(ssa.Value); ok {
				add(v)
			}
			if _, ok := in.(*ssa.Phi); ok && i == fi.nphis[b.Index] {
				fi.nphis[b.Index]++
			}
		}
	}
	// RPO
	fi.rpo = make([]int, nb)
	visited := make([]bool, nb)
	var post []int
	var dfs func(b *ssa.BasicBlock)
	dfs = func(b *ssa.BasicBlock) {
		visited[b.Index] = true
		for _, s := range b.Succs {
			if !visited[s.Index] {
				dfs(s)
			}
		}
		post = append(post, b.Index)
	}
	if nb > 0 {
		dfs(fn.Blocks[0])
		// the recover block (if any) is not reachable by normal edges
		for _, b := range fn.Blocks {
			if !visited[b.Index] {
				dfs(b)
			}
		}
	}
	for i, bi := range post {
		fi.rpo[bi] = len(post) - 1 - i
	}
	// natural loops
	fi.inLoop = make([]map[int]bool, nb)
	for _, u := range fn.Blocks {
		for _, h := range u.Succs {
			if h.Dominates(u) { // back edge u->h
				set := fi.inLoop[h.Index]
				if set == nil {
					set = map[int]bool{h.Index: true}
					fi.inLoop[h.Index] = set
				}
				stack := []*ssa.BasicBlock{u}
				for len(stack) > 0 {
					x := stack[len(stack)-1]
					stack = stack[:len(stack)-1]
					if set[x.Index] {
						continue
					}
					set[x.Index] = true
					for _, p := range x.Preds {
						stack = append(stack, p)
					}
				}
			}
		}
	}
	fi.loops = make([][]int, nb)
	for bi := 0; bi < nb; bi++ {
		var hs []int
		for h := 0; h < nb; h++ {
			if fi.inLoop[h] != nil && fi.inLoop[h][bi] {
				hs = append(hs, h)
			}
		}
		// outermost first = larger loop first
		for i := 0; i < len(hs); i++ {
			for j := i + 1; j < len(hs); j++ {
				if len(fi.inLoop[hs[j]]) > len(fi.inLoop[hs[i]]) {
					hs[i], hs[j] = hs[j], hs[i]
				}
			}
		}
		fi.loops[bi] = hs
	}
	// liveness (backward dataflow); liveIn[b] = live just after the phis of b
	use := make([][]bool, nb)
	def := make([][]bool, nb)
	for _, b := range fn.Blocks {
		use[b.Index] = make([]bool, fi.nregs)
		def[b.Index] = make([]bool, fi.nregs)
		for i, in := range b.Instrs {
			if i < fi.nphis[b.Index] {
				continue
			}
			var ops []*ssa.Value
			ops = in.Operands(ops)
			for _, op := range ops {
				if op == nil || *op == nil {
					continue
				}
				if idx, ok := fi.regIdx[*op]; ok && !def[b.Index][idx] {
					use[b.Index][idx] = true
				}
			}
			if v, ok := in.(ssa.Value); ok {
				def[b.Index][fi.regIdx[v]] = true
			}
		}
	}
	fi.liveIn = make([][]bool, nb)
	for i := range fi.liveIn {
		fi.liveIn[i] = make([]bool, fi.nregs)
		copy(fi.liveIn[i], use[i])
	}
	changed := true
	for changed {
		changed = false
		for bi := nb - 1; bi >= 0; bi-- {
			b := fn.Blocks[bi]
			for _, s := range b.Succs {
				// live-out contribution of edge b->s: liveIn[s] minus phi defs, plus phi operands for this edge
				pi := -1
				for k, p := range s.Preds {
					if p == b {
						pi = k
						break
					}
				}
				phiDef := map[int]bool{}
				for k := 0; k < fi.nphis[s.Index]; k++ {
					phi := s.Instrs[k].(*ssa.Phi)
					phiDef[fi.regIdx[phi]] = true
					if pi >= 0 {
						if idx, ok := fi.regIdx[phi.Edges[pi]]; ok {
							if !def[bi][idx] && !fi.liveIn[bi][idx] {
								fi.liveIn[bi][idx] = true
								changed = true
							}
						}
					}
				}
				for idx, l := range fi.liveIn[s.Index] {
					if l && !phiDef[idx] && !def[bi][idx] && !fi.liveIn[bi][idx] {
						fi.liveIn[bi][idx] = true
						changed = true
					}
				}
			}
		}
	}
	// values defined by phis of b and live later are "live after phis": mark them if used in b or live-out.
	for _, b := range fn.Blocks {
		for k := 0; k < fi.nphis[b.Index]; k++ {
			// conservatively keep all phi values of the block
			fi.liveIn[b.Index][fi.regIdx[b.Instrs[k].(ssa.Value)]] = true
		}
	}
	return fi
}
