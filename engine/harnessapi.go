package main

import (
	"fmt"

	"golang.org/x/tools/go/ssa"
)

func init() {
	harnessAPI = map[string]intrinsicFn{
		"nondetBool": hNondetBool,
		"nondetU8": func(c *Ctx, st *State, fn *ssa.Function, a []Value) (*State, Value) {
			return st, c.nondetScalar(a[0], "u8", 8)
		},
		"nondetU32": func(c *Ctx, st *State, fn *ssa.Function, a []Value) (*State, Value) {
			return st, c.nondetScalar(a[0], "u32", 32)
		},
		"nondetU64": func(c *Ctx, st *State, fn *ssa.Function, a []Value) (*State, Value) {
			return st, c.nondetScalar(a[0], "u64", 64)
		},
		"nondetI64": func(c *Ctx, st *State, fn *ssa.Function, a []Value) (*State, Value) {
			return st, c.nondetScalar(a[0], "i64", 64)
		},
		"nondetInt": func(c *Ctx, st *State, fn *ssa.Function, a []Value) (*State, Value) {
			return st, c.nondetScalar(a[0], "int", 64)
		},
		"nondetIntRange": hNondetIntRange,
		"nondetLen":      hNondetLen,
		"nondetChoice":   hNondetChoice,
		"nondetString":   hNondetString,
		"nondetStringN":  hNondetStringN,
		"nondetStringU":  hNondetStringU,
		"nondetASCII":    hNondetASCII,
		"vparam":         hVparam,
		"vhalt":          func(c *Ctx, st *State, fn *ssa.Function, a []Value) (*State, Value) { return nil, nil },
		"vnative":        func(c *Ctx, st *State, fn *ssa.Function, a []Value) (*State, Value) { return st, c.tt.F },
		"vassume":        hVassume,
		"vassert":        hVassert,
		"vreach":         hVreach,
		"vregex":         hVregex,
		"vfreeze":        hVfreeze,
		"vunchanged":     hVunchanged,
		"vguard":         hVguard,
		"vunguard":       hVunguard,
		"vMutexFree":     hVMutexFree,
		"vspawned":       hVspawned,
		"vrunSpawned":    hVrunSpawned,
		"vPathErr":       hVPathErr,
		"vtrace":         hVtrace,
		"vtraceCount":    hVtraceCount,
		"vmapOrder":      hVmapOrder,
		"vselectOrder":   hVselectOrder,
		"vsameObject":    hVsameObject,
	}
}

func (c *Ctx) nameArg(v Value) string {
	s, ok := concreteOf(v)
	if !ok {
		panic(engineErr("harness API: name must be a concrete string"))
	}
	return s
}

func (c *Ctx) intArg(v Value) int {
	t := v.(*Term)
	if !t.IsConst() {
		panic(engineErr("harness API: integer argument must be concrete"))
	}
	return int(int64(t.val))
}

func (c *Ctx) freshName(name string) string {
	n := name
	k := 1
	for c.usedNames[n] {
		k++
		n = fmt.Sprintf("%s#%d", name, k)
	}
	c.usedNames[n] = true
	return n
}

func (c *Ctx) mkVar(name string, w int) *Term {
	if c.concrete != nil {
		return c.tt.Const(w, c.concrete.Vars[name])
	}
	return c.tt.Var(name, w)
}

func (c *Ctx) nondetScalar(nameV Value, kind string, w int) *Term {
	name := c.freshName(c.nameArg(nameV))
	t := c.mkVar(name, w)
	c.nondetVars = append(c.nondetVars, nondetVar{name: name, kind: kind, t: t})
	return t
}

func hNondetBool(c *Ctx, st *State, fn *ssa.Function, a []Value) (*State, Value) {
	return st, c.nondetScalar(a[0], "bool", 0)
}

func hNondetIntRange(c *Ctx, st *State, fn *ssa.Function, a []Value) (*State, Value) {
	lo, hi := a[1].(*Term), a[2].(*Term)
	t := c.nondetScalar(a[0], "int", 64)
	st.pc = append(st.pc, c.tt.Bin(OpSle, lo, t), c.tt.Bin(OpSle, t, hi))
	return st, t
}

// choose: concrete case split, driven by the prescription.
func (c *Ctx) choose(name string, n int) int {
	if n <= 0 {
		panic(engineErr("nondetChoice with n <= 0"))
	}
	i := len(c.choiceLog)
	pick := 0
	if c.concrete != nil {
		pick = c.concrete.Choices[name]
	} else if c.dbgChoices != nil {
		pick = c.dbgChoices[name]
	} else if i < len(c.presc) {
		pick = c.presc[i]
	} else {
		// first visit of this choice point: schedule the siblings
		for k := 1; k < n; k++ {
			p := make([]int, i+1)
			for j := 0; j < i; j++ {
				p[j] = c.choiceLog[j].pick
			}
			p[i] = k
			c.newCases = append(c.newCases, p)
		}
	}
	c.choiceLog = append(c.choiceLog, choiceRec{name, n, pick})
	return pick
}

func hNondetLen(c *Ctx, st *State, fn *ssa.Function, a []Value) (*State, Value) {
	lo, hi := c.intArg(a[1]), c.intArg(a[2])
	name := c.freshName(c.nameArg(a[0]))
	k := lo + c.choose(name, hi-lo+1)
	c.nondetVars = append(c.nondetVars, nondetVar{name: name, kind: "choice", strN: k})
	return st, c.tt.Const(64, uint64(k))
}

func hNondetChoice(c *Ctx, st *State, fn *ssa.Function, a []Value) (*State, Value) {
	name := c.freshName(c.nameArg(a[0]))
	k := c.choose(name, c.intArg(a[1]))
	c.nondetVars = append(c.nondetVars, nondetVar{name: name, kind: "choice", strN: k})
	return st, c.tt.Const(64, uint64(k))
}

func (c *Ctx) symString(name string, n int) *Str {
	s := &Str{b: make([]*Term, n)}
	for i := 0; i < n; i++ {
		s.b[i] = c.mkVar(fmt.Sprintf("%s[%d]", name, i), 8)
	}
	return s
}

func hNondetString(c *Ctx, st *State, fn *ssa.Function, a []Value) (*State, Value) {
	name := c.freshName(c.nameArg(a[0]))
	n := c.choose(name+".len", c.intArg(a[1])+1)
	c.nondetVars = append(c.nondetVars, nondetVar{name: name, kind: "str", strN: n})
	return st, c.symString(name, n)
}

func hNondetStringN(c *Ctx, st *State, fn *ssa.Function, a []Value) (*State, Value) {
	name := c.freshName(c.nameArg(a[0]))
	n := c.intArg(a[1])
	c.nondetVars = append(c.nondetVars, nondetVar{name: name, kind: "str", strN: n})
	return st, c.symString(name, n)
}

// nondetStringU: symbolic length (variable name.len) as a union of strings sharing their byte variables.
func hNondetStringU(c *Ctx, st *State, fn *ssa.Function, a []Value) (*State, Value) {
	name := c.freshName(c.nameArg(a[0]))
	max := c.intArg(a[1])
	lt := c.mkVar(name+".len", 64)
	st.pc = append(st.pc, c.tt.Bin(OpUle, lt, c.tt.Const(64, uint64(max))))
	c.nondetVars = append(c.nondetVars, nondetVar{name: name, kind: "strU", strN: max, t: lt})
	full := c.symString(name, max)
	var alts []Alt
	for n := 0; n <= max; n++ {
		alts = append(alts, Alt{c.tt.Eq(lt, c.tt.Const(64, uint64(n))), &Str{b: full.b[:n]}})
	}
	return st, c.mkUnion(alts)
}

func hVparam(c *Ctx, st *State, fn *ssa.Function, a []Value) (*State, Value) {
	name := c.nameArg(a[0])
	v, ok := c.cfg.Params[name]
	if !ok {
		panic(engineErr("vparam: no bound named " + name + " in the check configuration"))
	}
	return st, c.tt.Const(64, uint64(v))
}

func hVassume(c *Ctx, st *State, fn *ssa.Function, a []Value) (*State, Value) {
	t := a[0].(*Term)
	if t.IsFalse() {
		return nil, nil
	}
	st.pc = append(st.pc, t)
	if !t.IsTrue() && !c.feasible(st, c.tt.T) {
		return nil, nil
	}
	return st, nil
}

func hVassert(c *Ctx, st *State, fn *ssa.Function, a []Value) (*State, Value) {
	label := c.nameArg(a[0])
	t := a[1].(*Term)
	c.assertLabels[label]++
	c.obligation(st, c.tt.Not(t), "assert", label, "assertion "+label+" violated")
	if t.IsFalse() {
		return nil, nil
	}
	return st, nil
}

func hVreach(c *Ctx, st *State, fn *ssa.Function, a []Value) (*State, Value) {
	label := c.nameArg(a[0])
	if c.reached[label] {
		return st, nil
	}
	r, model := c.solver.Check(st.pc, true, c.tt.vars)
	if r == resSat {
		c.reached[label] = true
		c.reachWit[label] = model
	} else if _, seen := c.reached[label]; !seen {
		c.reached[label] = false
	}
	return st, nil
}

func hVregex(c *Ctx, st *State, fn *ssa.Function, a []Value) (*State, Value) {
	pat := c.nameArg(a[0])
	d := c.regexDFA(pat)
	return st, c.lift1(a[1], func(s *Str) Value { return c.dfaMatch(d, s) })
}

func hVPathErr(c *Ctx, st *State, fn *ssa.Function, a []Value) (*State, Value) {
	// vPathErr(op string, inner error) error
	return st, &Iface{t: errType, v: &ErrObj{id: c.newID(), tag: "patherror", wraps: []Value{a[1]}}}
}

func hVtrace(c *Ctx, st *State, fn *ssa.Function, a []Value) (*State, Value) {
	c.trace = append(c.trace, c.nameArg(a[0]))
	return st, nil
}

func hVtraceCount(c *Ctx, st *State, fn *ssa.Function, a []Value) (*State, Value) {
	name := c.nameArg(a[0])
	n := 0
	for _, t := range c.trace {
		if t == name {
			n++
		}
	}
	return st, c.tt.Const(64, uint64(n))
}

// vselectOrder(k): which ready case a select takes when several are ready: 0 the first in source order, 1 the last
func hVselectOrder(c *Ctx, st *State, fn *ssa.Function, a []Value) (*State, Value) {
	c.selectOrder = c.intArg(a[0])
	return st, nil
}

func hVmapOrder(c *Ctx, st *State, fn *ssa.Function, a []Value) (*State, Value) {
	c.mapOrder = c.intArg(a[0])
	return st, nil
}

func hVsameObject(c *Ctx, st *State, fn *ssa.Function, a []Value) (*State, Value) {
	return st, c.valEq(a[0], a[1])
}

func hVspawned(c *Ctx, st *State, fn *ssa.Function, a []Value) (*State, Value) {
	return st, c.tt.Const(64, uint64(len(c.spawned)))
}

func hVrunSpawned(c *Ctx, st *State, fn *ssa.Function, a []Value) (*State, Value) {
	i := c.intArg(a[0])
	if i < 0 || i >= len(c.spawned) {
		panic(engineErr("vrunSpawned: no such goroutine"))
	}
	sp := c.spawned[i]
	ns, _ := c.callClosure(st, sp.fn, sp.args)
	if ns == nil {
		// the goroutine body ended (blocked forever or exited); the spawning thread continues
		return st, nil
	}
	return ns, nil
}

// ---------------------------------------------------------------- write-set monitor

type freezeRec struct {
	root Value
	heap *Heap
}

func hVfreeze(c *Ctx, st *State, fn *ssa.Function, a []Value) (*State, Value) {
	c.freezes = append(c.freezes, freezeRec{root: a[0], heap: st.heap.fork()})
	return st, c.tt.Const(64, uint64(len(c.freezes)-1))
}

func hVunchanged(c *Ctx, st *State, fn *ssa.Function, a []Value) (*State, Value) {
	tok := c.intArg(a[0])
	label := c.nameArg(a[1])
	fr := c.freezes[tok]
	seen := map[int]bool{}
	same := c.tt.T
	var objs []int
	var walk func(v Value)
	walk = func(v Value) {
		switch x := v.(type) {
		case *Ptr:
			if x.obj != 0 && !seen[x.obj] {
				seen[x.obj] = true
				objs = append(objs, x.obj)
				if o := fr.heap.get(x.obj); o != nil {
					walk(o.v)
				}
			}
		case *Slice:
			if x.obj != 0 && !seen[x.obj] {
				seen[x.obj] = true
				objs = append(objs, x.obj)
				if o := fr.heap.get(x.obj); o != nil {
					walk(o.v)
				}
			}
		case *MapRef:
			if x.obj != 0 && !seen[x.obj] {
				seen[x.obj] = true
				objs = append(objs, x.obj)
				if o := fr.heap.get(x.obj); o != nil {
					walk(o.v)
				}
			}
		case *MapVal:
			for _, e := range x.entries {
				walk(e.k)
				walk(e.v)
			}
		case *Struct:
			for _, f := range x.f {
				walk(f)
			}
		case *Array:
			for _, e := range x.e {
				walk(e)
			}
		case *Iface:
			if x.t != nil {
				walk(x.v)
			}
		case *Union:
			for _, al := range x.alts {
				walk(al.v)
			}
		case *Tuple:
			for _, e := range x.v {
				walk(e)
			}
		}
	}
	walk(fr.root)
	c.assertLabels[label]++
	for _, id := range objs {
		oo := fr.heap.get(id)
		no := st.heap.get(id)
		if oo == nil || no == nil || oo == no || oo.v == no.v {
			continue
		}
		if oo.typ != nil && isSyncType(oo.typ) {
			continue
		}
		same = c.tt.And(same, c.deepSame(oo.v, no.v))
	}
	c.obligation(st, c.tt.Not(same), "assert", label, "frozen structure was modified ("+label+")")
	return st, nil
}

func isSyncType(t interface{ String() string }) bool {
	s := t.String()
	return s == "sync.Mutex" || s == "sync.RWMutex"
}

// deepSame: cell-by-cell equality of two versions of one object value (no pointer following).
func (c *Ctx) deepSame(a, b Value) *Term {
	tt := c.tt
	if a == b {
		return tt.T
	}
	switch x := a.(type) {
	case *MapVal:
		y, ok := b.(*MapVal)
		if !ok {
			return tt.F
		}
		// every old entry must still be present with the same value and no new present entry may exist
		r := tt.T
		for i, e := range x.entries {
			if i >= len(y.entries) {
				r = tt.And(r, tt.Not(e.present))
				continue
			}
			f := y.entries[i]
			r = tt.AndN(r, tt.Eq(e.present, f.present), tt.Or(tt.Not(e.present), tt.And(c.valEq(e.k, f.k), c.deepSame(e.v, f.v))))
		}
		for i := len(x.entries); i < len(y.entries); i++ {
			r = tt.And(r, tt.Not(y.entries[i].present))
		}
		return r
	case *Struct:
		y, ok := b.(*Struct)
		if !ok || len(x.f) != len(y.f) {
			return tt.F
		}
		r := tt.T
		for i := range x.f {
			r = tt.And(r, c.deepSame(x.f[i], y.f[i]))
		}
		return r
	case *Array:
		y, ok := b.(*Array)
		if !ok || len(x.e) != len(y.e) {
			return tt.F
		}
		r := tt.T
		for i := range x.e {
			r = tt.And(r, c.deepSame(x.e[i], y.e[i]))
		}
		return r
	case *Slice:
		r := tt.F
		for _, bl := range c.alts(b) {
			y, ok := bl.v.(*Slice)
			if ok && x.obj == y.obj && pathEq(x.path, y.path) && x.off == y.off && x.n == y.n && x.c == y.c {
				r = tt.Or(r, bl.g)
			}
		}
		return r
	case *Func:
		y, ok := b.(*Func)
		return tt.Bool(ok && x.fn == y.fn)
	case *Union:
		r := tt.F
		for _, al := range x.alts {
			r = tt.Or(r, tt.And(al.g, c.deepSame(al.v, b)))
		}
		return r
	case *Iter, *ChanVal:
		return tt.T
	}
	if ub, ok := b.(*Union); ok {
		r := tt.F
		for _, bl := range ub.alts {
			r = tt.Or(r, tt.And(bl.g, c.deepSame(a, bl.v)))
		}
		return r
	}
	if _, ok := a.(*Slice); ok {
		return tt.F
	}
	defer func() {
		if r := recover(); r != nil {
			panic(r)
		}
	}()
	// type mismatch between versions counts as a change
	switch a.(type) {
	case *Term:
		if _, ok := b.(*Term); !ok {
			return tt.F
		}
	case *Str:
		if _, ok := b.(*Str); !ok {
			return tt.F
		}
	case *Ptr:
		if _, ok := b.(*Ptr); !ok {
			return tt.F
		}
	case *Iface:
		if _, ok := b.(*Iface); !ok {
			return tt.F
		}
	case *MapRef:
		if _, ok := b.(*MapRef); !ok {
			return tt.F
		}
	}
	return c.valEq(a, b)
}

// ---------------------------------------------------------------- lock monitor

func hVguard(c *Ctx, st *State, fn *ssa.Function, a []Value) (*State, Value) {
	mu := a[0].(*Ptr)
	g := &guardRec{mutexObj: mu.obj, mutexPath: mu.path, objs: map[int]bool{}}
	sl := a[1].(*Slice)
	for i := 0; i < sl.n; i++ {
		e := c.load(st, &Ptr{obj: sl.obj, path: pathAppend(sl.path, sl.off+i)})
		for _, al := range c.alts(e) {
			iv := al.v.(*Iface)
			if iv.t == nil {
				continue
			}
			for _, bl := range c.alts(iv.v) {
				switch x := bl.v.(type) {
				case *Ptr:
					if x.obj != 0 {
						g.objs[x.obj] = true
					}
				case *MapRef:
					if x.obj != 0 {
						g.objs[x.obj] = true
					}
				case *Slice:
					if x.obj != 0 {
						g.objs[x.obj] = true
					}
				}
			}
		}
	}
	c.guards = append(c.guards, g)
	return st, nil
}

func hVunguard(c *Ctx, st *State, fn *ssa.Function, a []Value) (*State, Value) {
	c.guards = nil
	return st, nil
}

// nondetASCII(name, n): n bytes, each an arbitrary 7-bit value (the high bit is structurally zero, so the
// engine knows without the solver that rune decoding is trivial). Variables name[i] are 7 bits wide.
func hNondetASCII(c *Ctx, st *State, fn *ssa.Function, a []Value) (*State, Value) {
	name := c.freshName(c.nameArg(a[0]))
	n := c.intArg(a[1])
	c.nondetVars = append(c.nondetVars, nondetVar{name: name, kind: "str", strN: n})
	s := &Str{b: make([]*Term, n)}
	for i := 0; i < n; i++ {
		s.b[i] = c.tt.Concat(c.tt.Const(1, 0), c.mkVar(fmt.Sprintf("%s[%d]", name, i), 7))
	}
	return st, s
}

func hVMutexFree(c *Ctx, st *State, fn *ssa.Function, a []Value) (*State, Value) {
	p := a[0].(*Ptr)
	c.guardOff++
	s := c.mutexState(st, p)
	c.guardOff--
	return st, c.tt.Eq(s, c.tt.Const(32, 0))
}
