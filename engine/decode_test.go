package main

import (
	"testing"
	"unicode/utf8"
)

// The UTF-8 decode model used for `range` over strings must agree with unicode/utf8 on every
// first byte >= 0x80, every second byte, and boundary values of the third/fourth bytes, for every suffix length.
func TestDecodeRuneModel(t *testing.T) {
	c := &Ctx{tt: newTerms(), decodeCache: map[string]decodeRes{}}
	edge := []byte{0x00, 0x7F, 0x80, 0x8F, 0x90, 0x9F, 0xA0, 0xBF, 0xC0, 0xFF}
	n := 0
	for b0 := 0x80; b0 <= 0xFF; b0++ {
		for b1 := 0; b1 <= 0xFF; b1++ {
			for _, b2 := range edge {
				for _, b3 := range edge {
					full := []byte{byte(b0), byte(b1), b2, b3}
					for l := 1; l <= 4; l++ {
						bs := make([]*Term, l)
						for i := 0; i < l; i++ {
							bs[i] = c.tt.Const(8, uint64(full[i]))
						}
						r, sizes := c.decodeRune(bs)
						wr, ws := utf8.DecodeRuneInString(string(full[:l]))
						if !r.IsConst() {
							t.Fatalf("non-constant result")
						}
						gs := 0
						for k := 1; k <= 4; k++ {
							if sizes[k].IsTrue() {
								if gs != 0 {
									t.Fatalf("two sizes")
								}
								gs = k
							}
						}
						if rune(r.val) != wr || gs != ws {
							t.Fatalf("% x: model (%U,%d) utf8 (%U,%d)", full[:l], r.val, gs, wr, ws)
						}
						n++
					}
				}
			}
		}
	}
	t.Logf("%d sequences compared", n)
}
