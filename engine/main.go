package main

// gosymex: symbolic execution of Go SSA (from /repo's current working tree + harness overlay) with an SMT solver.

import (
	"encoding/json"
	"flag"
	"fmt"
	"go/types"
	"os"
	"path/filepath"
	"runtime"
	"runtime/debug"
	"runtime/pprof"
	"sort"
	"strconv"
	"strings"
	"sync"
	"time"

	"golang.org/x/tools/go/packages"
	"golang.org/x/tools/go/ssa"
	"golang.org/x/tools/go/ssa/ssautil"
)

type Redirect struct {
	Callee   string `json:"callee"`
	Stub     string `json:"stub"`
	OnlyFrom string `json:"only_from,omitempty"`
}

type EntryCfg struct {
	Name     string                    `json:"name"`
	Params   map[string]map[string]int `json:"params"` // tier -> name -> value
	Unwind   int                       `json:"unwind,omitempty"`
	Steps    int                       `json:"steps,omitempty"`
	MaxCases int                       `json:"max_cases,omitempty"`
	Tiers    []string                  `json:"tiers,omitempty"` // restrict to tiers
}

type Config struct {
	Property      string          `json:"property"`
	ModuleDir     string          `json:"module_dir"`
	Package       string          `json:"package"`
	OverlayDir    string          `json:"overlay_dir"`
	OverlayTarget string          `json:"overlay_target"` // directory (relative to module_dir) receiving the overlay files
	Entries       []EntryCfg      `json:"entries"`
	Init          []string        `json:"init"`
	Redirects     []Redirect      `json:"redirect"`
	IntrinsicsOff map[string]bool `json:"intrinsics_off"`
	ZeroGlobals   []string        `json:"zero_globals"`
	BuildTags     []string        `json:"build_tags"`

	Params      map[string]int  `json:"-"`
	harnessPkgs map[string]bool `json:"-"`
	redirMap    map[string][]Redirect
	initSet     map[string]bool
	zeroSet     map[string]bool
}

func (cfg *Config) allowInit(path string) bool {
	if cfg.initSet[path] {
		return true
	}
	for p := range cfg.initSet {
		if strings.HasSuffix(p, "...") && strings.HasPrefix(path, strings.TrimSuffix(p, "...")) {
			return true
		}
	}
	return false
}

func (cfg *Config) allowZeroGlobal(g *ssa.Global) bool {
	return cfg.zeroSet[g.Pkg.Pkg.Path()+"."+g.Name()] || cfg.zeroSet[g.Pkg.Pkg.Path()+".*"]
}

func (cfg *Config) redirect(c *Ctx, fn *ssa.Function) (*ssa.Function, bool) {
	rs, ok := cfg.redirMap[fn.String()]
	if !ok {
		return nil, false
	}
	// calls made from a stub are never redirected
	for _, s := range c.stack {
		if strings.HasPrefix(s, "stub") {
			return nil, false
		}
	}
	for _, r := range rs {
		if r.OnlyFrom != "" {
			found := false
			for _, s := range c.stack {
				if s == r.OnlyFrom {
					found = true
				}
			}
			if !found {
				continue
			}
		}
		tgt, ok := c.funcByName[r.Stub]
		if !ok {
			panic(engineErr("redirect target not found: " + r.Stub))
		}
		return tgt, true
	}
	return nil, false
}

type CaseResult struct {
	Choices    []string                     `json:"choices"`
	Violations []*Violation                 `json:"violations,omitempty"`
	Incon      []string                     `json:"inconclusive,omitempty"`
	Reached    map[string]bool              `json:"reached,omitempty"`
	ReachWit   map[string]map[string]uint64 `json:"reach_witness,omitempty"`
	Asserts    map[string]int               `json:"asserts,omitempty"`
	Instr      int                          `json:"instr"`
	Blocks     int                          `json:"blocks"`
	Merges     int                          `json:"merges"`
	Forks      int                          `json:"forks"`
	Splits     int                          `json:"splits"`
	Oblig      int                          `json:"obligations"`
	Discharged int                          `json:"discharged"`
	Seconds    float64                      `json:"seconds"`
	Trace      []string                     `json:"trace,omitempty"`
	Symbolic   bool                         `json:"symbolic"`
	presc      []int
}

type EntryResult struct {
	Entry         string         `json:"entry"`
	Params        map[string]int `json:"params"`
	Cases         []*CaseResult  `json:"cases"`
	Funcs         map[string]int `json:"functions_encoded"`
	Stubs         map[string]int `json:"stubs"`
	Intrinsics    map[string]int `json:"intrinsics"`
	SolverQueries int            `json:"solver_queries"`
	SolverSeconds float64        `json:"solver_seconds"`
	SolverUnknown int            `json:"solver_unknown"`
	SolverErrors  []string       `json:"solver_errors,omitempty"`
	Seconds       float64        `json:"seconds"`
	CasesCapped   bool           `json:"cases_capped,omitempty"`
	Error         string         `json:"error,omitempty"`
}

type RunResult struct {
	Property string         `json:"property"`
	Tier     string         `json:"tier"`
	Entries  []*EntryResult `json:"entries"`
	LoadSec  float64        `json:"load_seconds"`
	Solver   string         `json:"solver"`
	Error    string         `json:"error,omitempty"`
}

func main() {
	cfgPath := flag.String("config", "", "check configuration (JSON)")
	tier := flag.String("tier", "quick", "quick|thorough")
	out := flag.String("out", "", "result file (JSON)")
	only := flag.String("entry", "", "run only this entry")
	workers := flag.Int("workers", 16, "parallel workers")
	solverKind := flag.String("solver", "z3", "z3|z3-new|cvc5")
	timeoutS := flag.Int("timeout", 60, "per-query solver timeout (s)")
	verbose := flag.Bool("v", false, "verbose")
	smtlog := flag.String("smtlog", "", "log SMT text of worker 0 to this file")
	replayPath := flag.String("replay", "", "concrete mode: run the entry named in this replay file on its values")
	diffPath := flag.String("diffreplay", "", "engine debugging: run the replay file concretely and symbolically and report the first instruction whose value differs under the model")
	cpuprof := flag.String("cpuprofile", "", "write a CPU profile")
	flag.Parse()
	debug.SetGCPercent(100)
	debug.SetMemoryLimit(9 << 30) // soft limit: make the collector work harder beyond 9 GB
	go func() {
		// hard budget: stop as inconclusive rather than let the kernel's OOM killer pick a victim
		limit := uint64(24)
		if v, err := strconv.Atoi(os.Getenv("VERIF_HEAP_GB")); err == nil && v > 0 {
			limit = uint64(v)
		}
		var ms runtime.MemStats
		for {
			time.Sleep(2 * time.Second)
			runtime.ReadMemStats(&ms)
			if ms.HeapAlloc > limit<<30 {
				if hp := os.Getenv("VERIF_HEAPPROF"); hp != "" {
					if f, err := os.Create(hp); err == nil {
						pprof.WriteHeapProfile(f)
						f.Close()
					}
				}
				fmt.Fprintf(os.Stderr, "INCONCLUSIVE engine memory budget exceeded: heap %d MB > %d GB (reduce the bounds)\n", ms.HeapAlloc>>20, limit)
				os.Exit(3)
			}
		}
	}()
	if *cpuprof != "" {
		f, _ := os.Create(*cpuprof)
		delay, _ := time.ParseDuration(os.Getenv("VERIF_PROF_DELAY"))
		go func() {
			time.Sleep(delay)
			pprof.StartCPUProfile(f)
			time.Sleep(20 * time.Second)
			pprof.StopCPUProfile()
			f.Close()
			os.Exit(3)
		}()
	}

	res := &RunResult{Tier: *tier, Solver: *solverKind}
	fail := func(msg string) {
		res.Error = msg
		writeJSON(*out, res)
		fmt.Fprintln(os.Stderr, "gosymex:", msg)
		os.Exit(2)
	}
	data, err := os.ReadFile(*cfgPath)
	if err != nil {
		fail(err.Error())
	}
	cfg := &Config{}
	if err := json.Unmarshal(data, cfg); err != nil {
		fail("config: " + err.Error())
	}
	res.Property = cfg.Property
	t0 := time.Now()
	prog, hpkgs, err := loadProgram(cfg)
	if err != nil {
		fail("load: " + err.Error())
	}
	res.LoadSec = time.Since(t0).Seconds()
	cfg.harnessPkgs = hpkgs
	cfg.initSet = map[string]bool{}
	for _, p := range cfg.Init {
		cfg.initSet[p] = true
	}
	cfg.zeroSet = map[string]bool{}
	for _, z := range cfg.ZeroGlobals {
		cfg.zeroSet[z] = true
	}
	cfg.redirMap = map[string][]Redirect{}
	for _, r := range cfg.Redirects {
		cfg.redirMap[r.Callee] = append(cfg.redirMap[r.Callee], r)
	}
	funcByName := map[string]*ssa.Function{}
	for fn := range ssautil.AllFunctions(prog) {
		funcByName[fn.String()] = fn
		if fn.Pkg != nil && hpkgs[fn.Pkg.Pkg.Path()] && fn.Signature.Recv() == nil && fn.Parent() == nil {
			funcByName[fn.Name()] = fn
		}
	}

	if *replayPath != "" {
		rd, err := os.ReadFile(*replayPath)
		if err != nil {
			fail(err.Error())
		}
		globalReplay = &replayFile{}
		if err := json.Unmarshal(rd, globalReplay); err != nil {
			fail(err.Error())
		}
		*only = globalReplay.Entry
		*workers = 1
	}
	if *diffPath != "" {
		diffReplay(prog, cfg, funcByName, *diffPath, *tier, *solverKind, *timeoutS)
		return
	}
	for _, e := range cfg.Entries {
		if *only != "" && e.Name != *only {
			continue
		}
		if len(e.Tiers) > 0 {
			ok := false
			for _, t := range e.Tiers {
				if t == *tier {
					ok = true
				}
			}
			if !ok {
				continue
			}
		}
		er := runEntry(prog, cfg, e, *tier, funcByName, *workers, *solverKind, *timeoutS, *verbose, *smtlog)
		res.Entries = append(res.Entries, er)
	}
	writeJSON(*out, res)
}

func writeJSON(path string, v interface{}) {
	b, _ := json.MarshalIndent(v, "", " ")
	if path == "" {
		os.Stdout.Write(b)
		return
	}
	os.WriteFile(path, b, 0o644)
}

func loadProgram(cfg *Config) (*ssa.Program, map[string]bool, error) {
	overlay := map[string][]byte{}
	target := filepath.Join(cfg.ModuleDir, cfg.OverlayTarget)
	if cfg.OverlayDir != "" {
		files, _ := filepath.Glob(filepath.Join(cfg.OverlayDir, "zz_*.go"))
		for _, f := range files {
			if strings.HasSuffix(f, "_test.go") {
				continue
			}
			b, err := os.ReadFile(f)
			if err != nil {
				return nil, nil, err
			}
			overlay[filepath.Join(target, filepath.Base(f))] = b
		}
	}
	pcfg := &packages.Config{
		Mode:       packages.LoadAllSyntax,
		Dir:        cfg.ModuleDir,
		Overlay:    overlay,
		Env:        goEnv(),
		BuildFlags: []string{"-tags=" + strings.Join(cfg.BuildTags, ",")},
	}
	pkgs, err := packages.Load(pcfg, cfg.Package)
	if err != nil {
		return nil, nil, err
	}
	var errs []string
	packages.Visit(pkgs, nil, func(p *packages.Package) {
		for _, e := range p.Errors {
			errs = append(errs, e.Error())
		}
	})
	if len(errs) > 0 {
		if len(errs) > 8 {
			errs = errs[:8]
		}
		return nil, nil, fmt.Errorf("package errors: %s", strings.Join(errs, "; "))
	}
	prog, spkgs := ssautil.AllPackages(pkgs, ssa.InstantiateGenerics)
	prog.Build()
	h := map[string]bool{}
	for _, sp := range spkgs {
		if sp != nil {
			h[sp.Pkg.Path()] = true
		}
	}
	return prog, h, nil
}

var globalReplay *replayFile

func newCtx(prog *ssa.Program, cfg *Config, funcByName map[string]*ssa.Function, solverKind string, timeoutS int) (*Ctx, error) {
	s, err := newSolver(solverKind, timeoutS)
	if err != nil {
		return nil, err
	}
	c := &Ctx{tt: newTerms(), solver: s, prog: prog, cfg: cfg, finfo: map[*ssa.Function]*FuncInfo{}, funcByName: funcByName}
	return c, nil
}

func (c *Ctx) resetCase() {
	c.tt = newTerms()
	if c.solver.dead {
		// the solver process of the previous case died (memory cap): start a fresh one, keep the counters
		old := c.solver
		old.Close()
		if ns, err := newSolver(old.name, old.timeoutS); err == nil {
			ns.Queries, ns.CacheHit, ns.Seconds, ns.Unknowns, ns.Errors, ns.log = old.Queries, old.CacheHit, old.Seconds, old.Unknowns, old.Errors, old.log
			c.solver = ns
		}
	}
	c.solver.defined = map[int]bool{}
	c.solver.cache = map[string]int{}
	c.solver.send("(reset)\n")
	if c.solver.name == "cvc5" {
		c.solver.send("(set-logic QF_BV)\n")
	} else {
		c.solver.send("(set-option :produce-models true)\n")
	}
	c.idCtr = 0
	c.globals = map[*ssa.Global]int{}
	c.initedPkgs = map[*ssa.Package]bool{}
	c.lazyGlobals = nil
	c.choiceLog = nil
	c.newCases = nil
	c.nondetVars = nil
	c.violations = nil
	c.reached = map[string]bool{}
	c.reachWit = map[string]map[string]uint64{}
	c.incon = nil
	c.depth = 0
	c.stInstr, c.stBlocks, c.stMerges, c.stStates, c.stOblig, c.stDischarge, c.stSplits = 0, 0, 0, 0, 0, 0, 0
	c.guards = nil
	c.spawned = nil
	c.trace = nil
	c.mapOrder = 0
	c.selectOrder = 0
	c.sentinels = map[string]*Iface{}
	c.usedNames = map[string]bool{}
	c.assertLabels = map[string]int{}
	c.freezes = nil
	c.dfas = map[string]*dfa{}
	c.regexps = map[int]string{}
	c.stack = nil
	c.guardOff = 0
	c.pendingEnv = nil
	c.decodeCache = map[string]decodeRes{}
	c.pendingObs = nil
	c.forks = nil
	c.liftGuard = nil
	c.plainErr = nil
	c.syncMaps = map[string]int{}
	c.inInit = false
}

func runEntry(prog *ssa.Program, cfg *Config, e EntryCfg, tier string, funcByName map[string]*ssa.Function, workers int, solverKind string, timeoutS int, verbose bool, smtlog string) *EntryResult {
	er := &EntryResult{Entry: e.Name, Funcs: map[string]int{}, Stubs: map[string]int{}, Intrinsics: map[string]int{}}
	params := map[string]int{}
	for k, v := range e.Params[tier] {
		params[k] = v
	}
	er.Params = params
	entryFn, ok := funcByName[e.Name]
	if !ok {
		er.Error = "entry function not found: " + e.Name
		return er
	}
	t0 := time.Now()
	var mu sync.Mutex
	queue := [][]int{{}}
	inflight := 0
	cond := sync.NewCond(&mu)
	maxCases := e.MaxCases
	if maxCases == 0 {
		maxCases = 200000
	}
	started := 0
	var wg sync.WaitGroup
	for w := 0; w < workers; w++ {
		wg.Add(1)
		go func(w int) {
			defer wg.Done()
			lcfg := *cfg
			lcfg.Params = params
			c, err := newCtx(prog, &lcfg, funcByName, solverKind, timeoutS)
			if err != nil {
				mu.Lock()
				er.Error = err.Error()
				mu.Unlock()
				return
			}
			defer c.solver.Close()
			if w == 0 && smtlog != "" {
				f, _ := os.Create(smtlog)
				c.solver.log = f
				defer f.Close()
			}
			c.funcsSeen = map[string]int{}
			c.stubsHit = map[string]int{}
			c.intrHit = map[string]int{}
			c.unwind = e.Unwind
			if c.unwind == 0 {
				c.unwind = 64
			}
			c.stepLimit = e.Steps
			c.checkAlts = false
			c.verbose = verbose
			if verbose && w == 0 && os.Getenv("VERIF_PROGRESS") != "" {
				go func() {
					for {
						time.Sleep(5 * time.Second)
						st := append([]string(nil), c.stack...)
						if c.mergeStat == nil {
							c.mergeStat = map[string]int{}
						}
						type kv struct {
							k string
							v int
						}
						var top []kv
						for k, v := range c.mergeStat {
							top = append(top, kv{k, v})
						}
						sort.Slice(top, func(i, j int) bool { return top[i].v > top[j].v })
						if len(top) > 4 {
							top = top[:4]
						}
						fmt.Fprintf(os.Stderr, "  [merge-terms by object label] %v\n", top)
						fmt.Fprintf(os.Stderr, "  [progress w0] instr=%d splits=%d forks=%d merges=%d terms=%d stack=%s\n", c.stInstr, c.stSplits, c.stStates, c.stMerges, len(c.tt.all), strings.Join(st, ">"))
					}
				}()
			}
			for {
				mu.Lock()
				for len(queue) == 0 && inflight > 0 {
					cond.Wait()
				}
				if len(queue) == 0 {
					mu.Unlock()
					cond.Broadcast()
					break
				}
				presc := queue[len(queue)-1]
				queue = queue[:len(queue)-1]
				if started >= maxCases {
					er.CasesCapped = true
					queue = nil
					mu.Unlock()
					cond.Broadcast()
					continue
				}
				started++
				inflight++
				mu.Unlock()

				cr := c.runCase(entryFn, presc)
				if verbose {
					fmt.Fprintf(os.Stderr, "[%s] case %v: %d viol, %d incon, %.2fs, instr=%d\n", e.Name, cr.Choices, len(cr.Violations), len(cr.Incon), cr.Seconds, cr.Instr)
				}
				mu.Lock()
				er.Cases = append(er.Cases, cr)
				queue = append(queue, c.newCases...)
				inflight--
				mu.Unlock()
				cond.Broadcast()
			}
			mu.Lock()
			for k, v := range c.funcsSeen {
				er.Funcs[k] += v
			}
			for k, v := range c.stubsHit {
				er.Stubs[k] += v
			}
			for k, v := range c.intrHit {
				er.Intrinsics[k] += v
			}
			er.SolverQueries += c.solver.Queries
			er.SolverSeconds += c.solver.Seconds
			er.SolverUnknown += c.solver.Unknowns
			for _, e := range c.solver.Errors {
				if len(er.SolverErrors) < 5 {
					er.SolverErrors = append(er.SolverErrors, e)
				}
			}
			mu.Unlock()
		}(w)
	}
	wg.Wait()
	sort.Slice(er.Cases, func(i, j int) bool {
		a, b := er.Cases[i].presc, er.Cases[j].presc
		for k := 0; k < len(a) && k < len(b); k++ {
			if a[k] != b[k] {
				return a[k] < b[k]
			}
		}
		return len(a) < len(b)
	})
	er.Seconds = time.Since(t0).Seconds()
	return er
}

func (c *Ctx) runCase(entry *ssa.Function, presc []int) (cr *CaseResult) {
	t0 := time.Now()
	c.resetCase()
	c.presc = presc
	c.concrete = globalReplay
	if c.dbgPendingModel != nil {
		c.dbgModel = c.dbgPendingModel
		c.dbgOrder = nil
		c.dbgPer = map[ssa.Instruction][]string{}
		c.dbgMemo = map[int]uint64{}
	}
	if c.concrete != nil && c.concrete.Params != nil {
		for k, v := range c.concrete.Params {
			c.cfg.Params[k] = v
		}
	}
	cr = &CaseResult{presc: presc}
	defer func() {
		if r := recover(); r != nil {
			if ee, ok := r.(engineErr); ok {
				c.inconclusive(string(ee) + " [" + c.where() + "]")
			} else {
				c.inconclusive(fmt.Sprintf("ENGINE-CRASH %v [%s]\n%s", r, c.where(), string(debug.Stack())))
			}
		}
		func() {
			defer func() {
				if r := recover(); r != nil {
					c.inconclusive(fmt.Sprintf("ENGINE-CRASH while deciding obligations: %v", r))
				}
			}()
			c.flushObligations()
		}()
		for _, ch := range c.choiceLog {
			cr.Choices = append(cr.Choices, fmt.Sprintf("%s=%d", ch.name, ch.pick))
		}
		cr.Violations = c.violations
		cr.Incon = c.incon
		cr.Reached = c.reached
		cr.ReachWit = c.reachWit
		cr.Asserts = c.assertLabels
		cr.Instr, cr.Blocks, cr.Merges, cr.Forks, cr.Splits = c.stInstr, c.stBlocks, c.stMerges, c.stStates, c.stSplits
		cr.Oblig, cr.Discharged = c.stOblig, c.stDischarge
		cr.Seconds = time.Since(t0).Seconds()
		cr.Trace = c.trace
		cr.Symbolic = len(c.tt.vars) > 0
		if len(c.solver.Errors) > 0 {
			cr.Incon = append(cr.Incon, "solver error: "+c.solver.Errors[0])
		}
	}()
	st := &State{heap: &Heap{owner: newOwner()}}
	c.inInit = true
	// package initialisers: allow-listed packages, third-party/stdlib ones first
	var ipkgs []*ssa.Package
	for _, p := range c.prog.AllPackages() {
		if c.cfg.allowInit(p.Pkg.Path()) && p != entry.Pkg {
			ipkgs = append(ipkgs, p)
		}
	}
	sort.Slice(ipkgs, func(i, j int) bool {
		a, b := ipkgs[i].Pkg.Path(), ipkgs[j].Pkg.Path()
		ra, rb := strings.HasPrefix(a, "tags.cncf.io/"), strings.HasPrefix(b, "tags.cncf.io/")
		if ra != rb {
			return !ra
		}
		return a < b
	})
	for _, p := range ipkgs {
		if init := p.Func("init"); init != nil && !c.initedPkgs[p] {
			ns, _ := c.callFunction(st, init, nil)
			if ns == nil {
				c.inconclusive("package initialisation did not complete: " + p.Pkg.Path())
				return
			}
			st = ns
		}
	}
	if entry.Pkg != nil {
		if init := entry.Pkg.Func("init"); init != nil {
			ns, _ := c.callFunction(st, init, nil)
			if ns == nil {
				c.inconclusive("package initialisation did not complete")
				return
			}
			st = ns
		}
	}
	c.stInstr, c.stBlocks = 0, 0
	c.trace = nil
	c.inInit = false
	c.callFunction(st, entry, nil)
	return
}

var _ = types.Identical

func diffReplay(prog *ssa.Program, cfg *Config, funcByName map[string]*ssa.Function, path, tier, solverKind string, timeoutS int) {
	rd, err := os.ReadFile(path)
	if err != nil {
		fmt.Println(err)
		return
	}
	rf := &replayFile{}
	json.Unmarshal(rd, rf)
	entry := funcByName[rf.Entry]
	lcfg := *cfg
	lcfg.Params = map[string]int{}
	for _, e := range cfg.Entries {
		if e.Name == rf.Entry {
			for k, v := range e.Params[tier] {
				lcfg.Params[k] = v
			}
		}
	}
	run := func(concrete bool) *Ctx {
		c, _ := newCtx(prog, &lcfg, funcByName, solverKind, timeoutS)
		c.funcsSeen, c.stubsHit, c.intrHit = map[string]int{}, map[string]int{}, map[string]int{}
		c.unwind = 64
		if concrete {
			globalReplay = rf
		} else {
			globalReplay = nil
		}
		c.dbgPendingModel = rf.Vars
		var presc []int
		// the symbolic run follows the same case: prescription from the choices, discovered on the fly
		c.dbgChoices = rf.Choices
		cr := c.runCase(entry, presc)
		fmt.Printf("run concrete=%v: violations=%d incon=%v\n", concrete, len(cr.Violations), cr.Incon)
		for _, v := range cr.Violations {
			fmt.Printf("   violation %s (%s)\n", v.Label, v.Kind)
		}
		c.solver.Close()
		return c
	}
	a := run(true)
	b := run(false)
	cnt := map[ssa.Instruction]int{}
	for i, r := range a.dbgOrder {
		k := cnt[r.in]
		cnt[r.in]++
		lst := b.dbgPer[r.in]
		if k >= len(lst) {
			fmt.Printf("DIVERGENCE at concrete step %d: %s in %s at %s executed %d times concretely but only %d times (with true pc) symbolically; concrete value %s\n", i, r.in.String(), r.fn, prog.Fset.Position(r.in.Pos()), k+1, len(lst), r.val)
			return
		}
		if lst[k] != r.val {
			fmt.Printf("DIVERGENCE at concrete step %d: %s in %s at %s: concrete %s symbolic-under-model %s\n", i, r.in.String(), r.fn, prog.Fset.Position(r.in.Pos()), r.val, lst[k])
			// context: previous few steps
			for j := i - 6; j < i; j++ {
				if j >= 0 {
					fmt.Printf("   before: %s = %s  (%s)\n", a.dbgOrder[j].in.String(), a.dbgOrder[j].val, a.dbgOrder[j].fn)
				}
			}
			return
		}
	}
	fmt.Println("no divergence in recorded values")
}

// goEnv: the go command environment; an existing GOFLAGS (e.g. with -modfile, so /repo's go.mod is never rewritten) is kept.
func goEnv() []string {
	env := os.Environ()
	if os.Getenv("GOFLAGS") == "" {
		env = append(env, "GOFLAGS=-mod=mod")
	}
	return append(env, "GOPROXY=off", "GOSUMDB=off", "GOTOOLCHAIN=local")
}
