package main

import (
	"fmt"
	"go/types"
	"math/bits"
	"strings"

	"golang.org/x/tools/go/ssa"
)

type intrinsicFn func(c *Ctx, st *State, fn *ssa.Function, args []Value) (*State, Value)

var intrinsics map[string]intrinsicFn
var harnessAPI map[string]intrinsicFn

func (c *Ctx) lookupIntrinsic(fn *ssa.Function) (intrinsicFn, bool) {
	if fn.Pkg != nil && c.cfg.harnessPkgs[fn.Pkg.Pkg.Path()] {
		if h, ok := harnessAPI[fn.Name()]; ok && fn.Signature.Recv() == nil {
			return h, true
		}
	}
	name := fn.String()
	if c.cfg.IntrinsicsOff[name] {
		return nil, false
	}
	h, ok := intrinsics[name]
	return h, ok
}

func init() {
	intrinsics = map[string]intrinsicFn{
		"strings.SplitN":                   inSplitN,
		"strings.Split":                    inSplit,
		"strings.Contains":                 inContains,
		"strings.ContainsAny":              inContainsAny,
		"strings.HasPrefix":                inHasPrefix,
		"strings.HasSuffix":                inHasSuffix,
		"strings.TrimPrefix":               inTrimPrefix,
		"strings.TrimSuffix":               inTrimSuffix,
		"strings.Index":                    inIndex,
		"strings.IndexByte":                inIndexByte,
		"strings.LastIndex":                inLastIndex,
		"strings.Count":                    inCount,
		"strings.Join":                     inJoin,
		"strings.ReplaceAll":               inReplaceAll,
		"strings.ToLower":                  inToLower,
		"strings.TrimSpace":                inTrimSpace,
		"strings.Cut":                      inCut,
		"strings.Repeat":                   inRepeat,
		"strings.TrimRight":                inTrimOpaqueOK,
		"strings.TrimLeft":                 inTrimOpaqueOK,
		"strings.Trim":                     inTrimOpaqueOK,
		"internal/bytealg.IndexByteString": inIndexByte,
		"internal/bytealg.CountString":     inCountByte,
		"internal/stringslite.HasPrefix":   inHasPrefix,
		"internal/stringslite.HasSuffix":   inHasSuffix,
		"internal/stringslite.IndexByte":   inIndexByte,
		"internal/stringslite.Index":       inIndex,
		"internal/stringslite.TrimPrefix":  inTrimPrefix,
		"internal/stringslite.TrimSuffix":  inTrimSuffix,
		"internal/stringslite.Cut":         inCut,

		"fmt.Errorf":    inErrorf,
		"fmt.Sprintf":   inSprintf,
		"fmt.Sprint":    inOpaqueString,
		"fmt.Sprintln":  inOpaqueString,
		"fmt.Printf":    inNoop,
		"fmt.Println":   inNoop,
		"fmt.Print":     inNoop,
		"fmt.Fprintf":   inNoop,
		"fmt.Fprintln":  inNoop,
		"fmt.Fprint":    inNoop,
		"errors.New":    inErrorsNew,
		"errors.Is":     inErrorsIs,
		"errors.Join":   inErrorsJoin,
		"errors.Unwrap": inErrorsUnwrap,
		"os.IsNotExist": inOsIsNotExist,
		"os.IsExist":    inOsIsExist,

		"(*sync.Mutex).Lock":      inMutexLock,
		"(*sync.Mutex).Unlock":    inMutexUnlock,
		"(*sync.RWMutex).Lock":    inRWLock,
		"(*sync.RWMutex).Unlock":  inRWUnlock,
		"(*sync.RWMutex).RLock":   inRWRLock,
		"(*sync.RWMutex).RUnlock": inRWRUnlock,
		"(*sync.Once).Do":         inOnceDo,

		"regexp.MustCompile":           inRegexpMustCompile,
		"(*regexp.Regexp).MatchString": inRegexpMatchString,
		"sort.Strings":                 inSortStrings,
		"os.Exit":                      inOsExit,
		"runtime.KeepAlive":            inNoop,
		"runtime.SetFinalizer":         inNoop,
	}
}

func inNoop(c *Ctx, st *State, fn *ssa.Function, args []Value) (*State, Value) {
	res := fn.Signature.Results()
	if res.Len() == 0 {
		return st, nil
	}
	if res.Len() == 1 {
		return st, c.zero(res.At(0).Type())
	}
	return st, c.zero(res)
}

func inOpaqueString(c *Ctx, st *State, fn *ssa.Function, args []Value) (*State, Value) {
	return st, c.opaqueStr(fn.Name())
}

// fmt.Sprintf with a concrete format and only concrete values of basic (unnamed) types is computed for real;
// anything else is opaque text.
func inSprintf(c *Ctx, st *State, fn *ssa.Function, args []Value) (*State, Value) {
	opaque := c.opaqueStr(fn.Name())
	fs, ok := args[0].(*Str)
	if !ok || fs.opaque {
		return st, opaque
	}
	format, ok := strConcrete(fs)
	if !ok {
		return st, opaque
	}
	var goArgs []any
	if sl, ok := args[1].(*Slice); ok {
		for i := 0; i < sl.n; i++ {
			iv, ok := c.load(st, &Ptr{obj: sl.obj, path: pathAppend(sl.path, sl.off+i)}).(*Iface)
			if !ok || iv.t == nil {
				return st, opaque
			}
			bt, ok := iv.t.(*types.Basic)
			if !ok {
				return st, opaque
			}
			switch v := iv.v.(type) {
			case *Str:
				if v.opaque {
					return st, opaque
				}
				x, ok := strConcrete(v)
				if !ok {
					return st, opaque
				}
				goArgs = append(goArgs, x)
			case *Term:
				if !v.IsConst() {
					return st, opaque
				}
				switch {
				case bt.Info()&types.IsBoolean != 0:
					goArgs = append(goArgs, v.IsTrue())
				case bt.Info()&types.IsUnsigned != 0:
					goArgs = append(goArgs, v.val)
				case bt.Info()&types.IsInteger != 0:
					sh := uint(64 - v.w)
					goArgs = append(goArgs, int64(v.val<<sh)>>sh)
				default:
					return st, opaque
				}
			default:
				return st, opaque
			}
		}
	} else {
		return st, opaque
	}
	return st, c.concreteStr(fmt.Sprintf(format, goArgs...))
}

func inOsExit(c *Ctx, st *State, fn *ssa.Function, args []Value) (*State, Value) {
	c.trace = append(c.trace, "os.Exit")
	return nil, nil
}

// ---------------------------------------------------------------- lifting over unions of strings

// strAlts enumerates alternatives of a string value.
func (c *Ctx) strAlts(v Value) []Alt {
	return c.alts(v)
}

// lift1 applies f to every alternative of a string argument and merges the results.
func (c *Ctx) lift1(v Value, f func(s *Str) Value) Value {
	var out []Alt
	for _, al := range c.alts(v) {
		s := al.v.(*Str)
		if s.opaque {
			panic(engineErr("INCONCLUSIVE string operation on opaque string " + s.tag))
		}
		saved := c.liftGuard
		c.liftGuard = c.tt.And(c.liftGuardOr(), al.g)
		out = append(out, Alt{al.g, f(s)})
		c.liftGuard = saved
	}
	return c.mergeAlts(out)
}

func (c *Ctx) liftGuardOr() *Term {
	if c.liftGuard == nil {
		return c.tt.T
	}
	return c.liftGuard
}

func (c *Ctx) lift2(a, b Value, f func(x, y *Str) Value) Value {
	var out []Alt
	for _, al := range c.alts(a) {
		for _, bl := range c.alts(b) {
			x, y := al.v.(*Str), bl.v.(*Str)
			if x.opaque || y.opaque {
				panic(engineErr("INCONCLUSIVE string operation on opaque string " + x.tag + y.tag))
			}
			saved := c.liftGuard
			c.liftGuard = c.tt.AndN(c.liftGuardOr(), al.g, bl.g)
			out = append(out, Alt{c.tt.And(al.g, bl.g), f(x, y)})
			c.liftGuard = saved
		}
	}
	return c.mergeAlts(out)
}

// mergeAlts merges guarded values (guards assumed exhaustive & exclusive): scalars become ite chains.
func (c *Ctx) mergeAlts(in []Alt) Value {
	if len(in) == 0 {
		return nil
	}
	if _, ok := in[0].v.(*Term); ok {
		r := in[len(in)-1].v.(*Term)
		for i := len(in) - 2; i >= 0; i-- {
			r = c.tt.Ite(in[i].g, in[i].v.(*Term), r)
		}
		return r
	}
	if _, ok := in[0].v.(*Tuple); ok {
		r := in[len(in)-1].v
		for i := len(in) - 2; i >= 0; i-- {
			r = c.merge(in[i].g, in[i].v, r)
		}
		return r
	}
	return c.mkUnion(in)
}

func concreteOf(v Value) (string, bool) {
	s, ok := v.(*Str)
	if !ok {
		return "", false
	}
	return strConcrete(s)
}

// matchAt: term for s[i:i+len(p)] == p
func (c *Ctx) matchAt(s *Str, i int, p *Str) *Term {
	if i < 0 || i+len(p.b) > len(s.b) {
		return c.tt.F
	}
	r := c.tt.T
	for k := range p.b {
		r = c.tt.And(r, c.tt.Eq(s.b[i+k], p.b[k]))
		if r.IsFalse() {
			break
		}
	}
	return r
}

// ---------------------------------------------------------------- strings.*

type splitAlt struct {
	g     *Term
	parts []*Str
}

// splitRec enumerates the ways sep can occur in s (first occurrence first). ctx is the guard accumulated so far;
// when feas is non-nil, alternatives whose guard is infeasible under the path condition are pruned early.
func (c *Ctx) splitRec(s *Str, sep *Str, n int, budget *int, ctx *Term, feas func(*Term) bool) []splitAlt {
	tt := c.tt
	if n == 1 {
		return []splitAlt{{tt.T, []*Str{s}}}
	}
	var out []splitAlt
	none := tt.T
	for i := 0; i+len(sep.b) <= len(s.b); i++ {
		m := c.matchAt(s, i, sep)
		if m.IsFalse() {
			continue
		}
		g := tt.And(none, m)
		if !g.IsFalse() && (feas == nil || feas(tt.And(ctx, g))) {
			head := &Str{b: s.b[:i]}
			nn := n - 1
			if n < 0 {
				nn = n
			}
			for _, r := range c.splitRec(&Str{b: s.b[i+len(sep.b):]}, sep, nn, budget, tt.And(ctx, g), feas) {
				*budget--
				if *budget < 0 {
					panic(engineErr("UNMODELLED strings.Split: too many alternatives (reduce the string bound)"))
				}
				out = append(out, splitAlt{tt.And(g, r.g), append([]*Str{head}, r.parts...)})
			}
		}
		none = tt.And(none, tt.Not(m))
		if none.IsFalse() {
			break
		}
	}
	if !none.IsFalse() && (feas == nil || feas(tt.And(ctx, none))) {
		out = append(out, splitAlt{none, []*Str{s}})
	}
	return out
}

func (c *Ctx) strSliceValue(st *State, parts []*Str) *Slice {
	arr := &Array{e: make([]Value, len(parts))}
	for i, p := range parts {
		arr.e[i] = p
	}
	id := c.alloc(st, nil, arr, "strings")
	return &Slice{obj: id, n: len(parts), c: len(parts)}
}

func (c *Ctx) doSplit(st *State, sv, sepv Value, n int) Value {
	return c.lift2(sv, sepv, func(s, sep *Str) Value {
		if n == 0 {
			return &Slice{}
		}
		if len(sep.b) == 0 {
			panic(engineErr("UNMODELLED strings.Split with empty separator"))
		}
		budget := 5000
		var alts []Alt
		var feas func(*Term) bool
		if len(s.b) > 6 && n < 0 {
			feas = func(g *Term) bool { return c.feasible(st, g) }
		}
		for _, sa := range c.splitRec(s, sep, n, &budget, c.tt.T, feas) {
			alts = append(alts, Alt{sa.g, c.strSliceValue(st, sa.parts)})
		}
		if len(alts) == 0 {
			// every alternative was pruned: the path itself is infeasible; keep a well-shaped value
			return c.strSliceValue(st, []*Str{s})
		}
		return c.mkUnion(alts)
	})
}

func inSplitN(c *Ctx, st *State, fn *ssa.Function, args []Value) (*State, Value) {
	nt := args[2].(*Term)
	if !nt.IsConst() {
		panic(engineErr("UNMODELLED strings.SplitN with symbolic n"))
	}
	return st, c.doSplit(st, args[0], args[1], int(int64(nt.val)))
}

func inSplit(c *Ctx, st *State, fn *ssa.Function, args []Value) (*State, Value) {
	return st, c.doSplit(st, args[0], args[1], -1)
}

func inCut(c *Ctx, st *State, fn *ssa.Function, args []Value) (*State, Value) {
	tt := c.tt
	return st, c.lift2(args[0], args[1], func(s, sep *Str) Value {
		var alts []Alt
		none := tt.T
		for i := 0; i+len(sep.b) <= len(s.b); i++ {
			m := c.matchAt(s, i, sep)
			g := tt.And(none, m)
			if !g.IsFalse() {
				alts = append(alts, Alt{g, &Tuple{v: []Value{&Str{b: s.b[:i]}, &Str{b: s.b[i+len(sep.b):]}, tt.T}}})
			}
			none = tt.And(none, tt.Not(m))
		}
		alts = append(alts, Alt{none, &Tuple{v: []Value{s, &Str{}, tt.F}}})
		r := alts[len(alts)-1].v
		for i := len(alts) - 2; i >= 0; i-- {
			r = c.merge(alts[i].g, alts[i].v, r)
		}
		return r
	})
}

func (c *Ctx) indexTerm(s, p *Str) *Term {
	tt := c.tt
	r := tt.Const(64, ^uint64(0))
	for i := len(s.b) - len(p.b); i >= 0; i-- {
		r = tt.Ite(c.matchAt(s, i, p), tt.Const(64, uint64(i)), r)
	}
	return r
}

func inIndex(c *Ctx, st *State, fn *ssa.Function, args []Value) (*State, Value) {
	return st, c.lift2(args[0], args[1], func(s, p *Str) Value { return c.indexTerm(s, p) })
}

func inLastIndex(c *Ctx, st *State, fn *ssa.Function, args []Value) (*State, Value) {
	tt := c.tt
	return st, c.lift2(args[0], args[1], func(s, p *Str) Value {
		r := tt.Const(64, ^uint64(0))
		for i := 0; i+len(p.b) <= len(s.b); i++ {
			r = tt.Ite(c.matchAt(s, i, p), tt.Const(64, uint64(i)), r)
		}
		return r
	})
}

func inIndexByte(c *Ctx, st *State, fn *ssa.Function, args []Value) (*State, Value) {
	b := args[1].(*Term)
	return st, c.lift1(args[0], func(s *Str) Value { return c.indexTerm(s, &Str{b: []*Term{b}}) })
}

func inContains(c *Ctx, st *State, fn *ssa.Function, args []Value) (*State, Value) {
	tt := c.tt
	return st, c.lift2(args[0], args[1], func(s, p *Str) Value {
		r := tt.F
		for i := 0; i+len(p.b) <= len(s.b); i++ {
			r = tt.Or(r, c.matchAt(s, i, p))
		}
		return r
	})
}

func inContainsAny(c *Ctx, st *State, fn *ssa.Function, args []Value) (*State, Value) {
	tt := c.tt
	return st, c.lift2(args[0], args[1], func(s, chars *Str) Value {
		for _, ch := range chars.b {
			if !ch.IsConst() || ch.val >= 0x80 {
				panic(engineErr("UNMODELLED strings.ContainsAny with non-constant/non-ASCII chars"))
			}
		}
		r := tt.F
		for _, b := range s.b {
			for _, ch := range chars.b {
				r = tt.Or(r, tt.Eq(b, ch))
			}
		}
		return r
	})
}

func inCount(c *Ctx, st *State, fn *ssa.Function, args []Value) (*State, Value) {
	tt := c.tt
	return st, c.lift2(args[0], args[1], func(s, p *Str) Value {
		if len(p.b) != 1 {
			if len(p.b) == 0 {
				panic(engineErr("UNMODELLED strings.Count with empty substring"))
			}
			cs, ok1 := strConcrete(s)
			cp, ok2 := strConcrete(p)
			if ok1 && ok2 {
				return tt.Const(64, uint64(strings.Count(cs, cp)))
			}
			panic(engineErr("UNMODELLED strings.Count with symbolic multi-byte substring"))
		}
		n := tt.Const(64, 0)
		for _, b := range s.b {
			n = tt.Bin(OpAdd, n, tt.Ite(tt.Eq(b, p.b[0]), tt.Const(64, 1), tt.Const(64, 0)))
		}
		return n
	})
}

func inCountByte(c *Ctx, st *State, fn *ssa.Function, args []Value) (*State, Value) {
	tt := c.tt
	ch := args[1].(*Term)
	return st, c.lift1(args[0], func(s *Str) Value {
		n := tt.Const(64, 0)
		for _, b := range s.b {
			n = tt.Bin(OpAdd, n, tt.Ite(tt.Eq(b, ch), tt.Const(64, 1), tt.Const(64, 0)))
		}
		return n
	})
}

func inHasPrefix(c *Ctx, st *State, fn *ssa.Function, args []Value) (*State, Value) {
	return st, c.lift2(args[0], args[1], func(s, p *Str) Value { return c.matchAt(s, 0, p) })
}

func inHasSuffix(c *Ctx, st *State, fn *ssa.Function, args []Value) (*State, Value) {
	return st, c.lift2(args[0], args[1], func(s, p *Str) Value { return c.matchAt(s, len(s.b)-len(p.b), p) })
}

func inTrimPrefix(c *Ctx, st *State, fn *ssa.Function, args []Value) (*State, Value) {
	return st, c.lift2(args[0], args[1], func(s, p *Str) Value {
		m := c.matchAt(s, 0, p)
		if m.IsFalse() {
			return s
		}
		return c.merge(m, &Str{b: s.b[len(p.b):]}, s)
	})
}

func inTrimSuffix(c *Ctx, st *State, fn *ssa.Function, args []Value) (*State, Value) {
	return st, c.lift2(args[0], args[1], func(s, p *Str) Value {
		m := c.matchAt(s, len(s.b)-len(p.b), p)
		if m.IsFalse() {
			return s
		}
		return c.merge(m, &Str{b: s.b[:len(s.b)-len(p.b)]}, s)
	})
}

func inJoin(c *Ctx, st *State, fn *ssa.Function, args []Value) (*State, Value) {
	// args[0] []string (possibly union), args[1] sep
	var out []Alt
	for _, al := range c.alts(args[0]) {
		sl := al.v.(*Slice)
		elems := make([]Value, sl.n)
		for i := 0; i < sl.n; i++ {
			elems[i] = c.load(st, &Ptr{obj: sl.obj, path: pathAppend(sl.path, sl.off+i)})
		}
		// fold with unions
		var acc Value = &Str{}
		for i, e := range elems {
			if i > 0 {
				acc = c.lift2(acc, args[1], func(x, y *Str) Value { return &Str{b: append(append([]*Term(nil), x.b...), y.b...)} })
			}
			acc = c.liftConcatOpaque(acc, e)
		}
		out = append(out, Alt{al.g, acc})
	}
	return st, c.mkUnion(out)
}

func (c *Ctx) liftConcatOpaque(a, b Value) Value {
	var out []Alt
	for _, al := range c.alts(a) {
		for _, bl := range c.alts(b) {
			x, y := al.v.(*Str), bl.v.(*Str)
			g := c.tt.And(al.g, bl.g)
			if x.opaque || y.opaque {
				out = append(out, Alt{g, c.opaqueStr("join")})
			} else {
				out = append(out, Alt{g, &Str{b: append(append([]*Term(nil), x.b...), y.b...)}})
			}
		}
	}
	return c.mkUnion(out)
}

func inReplaceAll(c *Ctx, st *State, fn *ssa.Function, args []Value) (*State, Value) {
	tt := c.tt
	oldS, ok1 := concreteOf(args[1])
	newS, ok2 := concreteOf(args[2])
	if !ok1 || !ok2 || len(oldS) != 1 || len(newS) != 1 {
		panic(engineErr("UNMODELLED strings.ReplaceAll other than single constant bytes"))
	}
	o, n := tt.Const(8, uint64(oldS[0])), tt.Const(8, uint64(newS[0]))
	return st, c.lift1(args[0], func(s *Str) Value {
		r := &Str{b: make([]*Term, len(s.b))}
		for i, b := range s.b {
			r.b[i] = tt.Ite(tt.Eq(b, o), n, b)
		}
		return r
	})
}

func (c *Ctx) requireASCII(st *State, s *Str, what string) {
	tt := c.tt
	bad := tt.F
	for _, b := range s.b {
		bad = tt.Or(bad, tt.Not(tt.Bin(OpUlt, b, tt.Const(8, 0x80))))
	}
	if !bad.IsFalse() && c.feasible(st, c.tt.And(bad, c.liftGuardOr())) {
		panic(engineErr("UNMODELLED " + what + " on a string that may contain non-ASCII bytes (assume ASCII in the harness)"))
	}
}

func inToLower(c *Ctx, st *State, fn *ssa.Function, args []Value) (*State, Value) {
	tt := c.tt
	return st, c.lift1(args[0], func(s *Str) Value {
		c.requireASCII(st, s, "strings.ToLower")
		r := &Str{b: make([]*Term, len(s.b))}
		for i, b := range s.b {
			up := tt.And(tt.Bin(OpUle, tt.Const(8, 'A'), b), tt.Bin(OpUle, b, tt.Const(8, 'Z')))
			r.b[i] = tt.Ite(up, tt.Bin(OpAdd, b, tt.Const(8, 32)), b)
		}
		return r
	})
}

func (c *Ctx) isSpaceASCII(b *Term) *Term {
	tt := c.tt
	return tt.OrN(tt.Eq(b, tt.Const(8, ' ')), tt.Eq(b, tt.Const(8, '\t')), tt.Eq(b, tt.Const(8, '\n')), tt.Eq(b, tt.Const(8, '\v')), tt.Eq(b, tt.Const(8, '\f')), tt.Eq(b, tt.Const(8, '\r')))
}

func inTrimSpace(c *Ctx, st *State, fn *ssa.Function, args []Value) (*State, Value) {
	tt := c.tt
	return st, c.lift1(args[0], func(s *Str) Value {
		c.requireASCII(st, s, "strings.TrimSpace")
		n := len(s.b)
		var alts []Alt
		// start = first non-space index i, end = last non-space index j
		lead := tt.T
		for i := 0; i <= n; i++ {
			var gi *Term
			if i == n {
				gi = lead
				alts = append(alts, Alt{gi, &Str{}})
				break
			}
			sp := c.isSpaceASCII(s.b[i])
			gi = tt.And(lead, tt.Not(sp))
			if !gi.IsFalse() {
				trail := tt.T
				for j := n - 1; j >= i; j-- {
					spj := c.isSpaceASCII(s.b[j])
					gj := tt.AndN(gi, trail, tt.Not(spj))
					if j == i {
						gj = tt.And(gi, trail)
					}
					if !gj.IsFalse() {
						alts = append(alts, Alt{gj, &Str{b: s.b[i : j+1]}})
					}
					trail = tt.And(trail, spj)
				}
			}
			lead = tt.And(lead, sp)
		}
		return c.mkUnion(alts)
	})
}

// ---------------------------------------------------------------- errors / fmt

func (c *Ctx) newErr(tag string, wraps ...Value) *Iface {
	plain := !c.inInit && !strings.HasPrefix(tag, "sentinel:")
	for _, w := range wraps {
		if !c.isPlainErrValue(w) {
			plain = false
		}
	}
	return &Iface{t: errType, v: &ErrObj{id: c.newID(), tag: tag, wraps: wraps, plain: plain}}
}

func inErrorsNew(c *Ctx, st *State, fn *ssa.Function, args []Value) (*State, Value) {
	tag := "errors.New"
	if s, ok := concreteOf(args[0]); ok {
		tag = "errors.New:" + s
	}
	return st, c.newErr(tag)
}

func inErrorf(c *Ctx, st *State, fn *ssa.Function, args []Value) (*State, Value) {
	format, ok := concreteOf(args[0])
	var wraps []Value
	var elems []Value
	for _, al := range c.alts(args[1]) {
		sl := al.v.(*Slice)
		if len(c.alts(args[1])) > 1 {
			panic(engineErr("UNMODELLED fmt.Errorf with union argument list"))
		}
		for i := 0; i < sl.n; i++ {
			elems = append(elems, c.load(st, &Ptr{obj: sl.obj, path: pathAppend(sl.path, sl.off+i)}))
		}
	}
	if !ok {
		// unknown format: conservatively wrap every error argument
		for _, e := range elems {
			if c.mayBeError(e) {
				wraps = append(wraps, e)
			}
		}
		return st, c.newErr("fmt.Errorf", wraps...)
	}
	ai := 0
	for i := 0; i < len(format); i++ {
		if format[i] != '%' {
			continue
		}
		i++
		for i < len(format) && strings.IndexByte("+-# 0123456789.[]", format[i]) >= 0 {
			i++
		}
		if i >= len(format) {
			break
		}
		if format[i] == '%' {
			continue
		}
		if format[i] == 'w' && ai < len(elems) && c.mayBeError(elems[ai]) {
			wraps = append(wraps, elems[ai])
		}
		ai++
	}
	return st, c.newErr("fmt.Errorf:"+format, wraps...)
}

func (c *Ctx) mayBeError(v Value) bool {
	for _, al := range c.alts(v) {
		iv, ok := al.v.(*Iface)
		if !ok {
			return false
		}
		if iv.t == nil {
			continue
		}
		if _, isErr := iv.v.(*ErrObj); isErr {
			return true
		}
		if types.Implements(iv.t, errType.Underlying().(*types.Interface)) {
			return true
		}
	}
	return false
}

// errIs: errors.Is(v, target) as a term.
func (c *Ctx) errIs(v Value, target Value, depth int) *Term {
	tt := c.tt
	if depth > 12 {
		panic(engineErr("error chain too deep"))
	}
	r := tt.F
	for _, al := range c.alts(v) {
		iv, ok := al.v.(*Iface)
		if !ok || iv.t == nil {
			continue
		}
		hit := tt.F
		for _, tl := range c.alts(target) {
			tv := tl.v.(*Iface)
			if tv.t == nil {
				continue
			}
			hit = tt.Or(hit, tt.And(tl.g, c.valEq(iv, tv)))
		}
		if e, isErr := iv.v.(*ErrObj); isErr && !hit.IsTrue() {
			for _, w := range e.wraps {
				hit = tt.Or(hit, c.errIs(w, target, depth+1))
			}
		}
		r = tt.Or(r, tt.And(al.g, hit))
	}
	return r
}

func inErrorsIs(c *Ctx, st *State, fn *ssa.Function, args []Value) (*State, Value) {
	return st, c.errIs(args[0], args[1], 0)
}

func inErrorsUnwrap(c *Ctx, st *State, fn *ssa.Function, args []Value) (*State, Value) {
	var out []Alt
	for _, al := range c.alts(args[0]) {
		iv := al.v.(*Iface)
		var r Value = &Iface{}
		if iv.t != nil {
			if e, ok := iv.v.(*ErrObj); ok && len(e.wraps) == 1 && !strings.HasPrefix(e.tag, "errors.Join") {
				r = e.wraps[0]
			}
		}
		out = append(out, Alt{al.g, r})
	}
	return st, c.mkUnion(out)
}

func inErrorsJoin(c *Ctx, st *State, fn *ssa.Function, args []Value) (*State, Value) {
	tt := c.tt
	var out []Alt
	for _, al := range c.alts(args[0]) {
		sl := al.v.(*Slice)
		var elems []Value
		anyNonNil := tt.F
		for i := 0; i < sl.n; i++ {
			e := c.load(st, &Ptr{obj: sl.obj, path: pathAppend(sl.path, sl.off+i)})
			elems = append(elems, e)
			anyNonNil = tt.Or(anyNonNil, tt.Not(c.valEq(e, &Iface{})))
		}
		var r Value
		if anyNonNil.IsFalse() {
			r = &Iface{}
		} else {
			r = c.merge(anyNonNil, c.newErr("errors.Join", elems...), &Iface{})
		}
		out = append(out, Alt{al.g, r})
	}
	return st, c.mkUnion(out)
}

func (c *Ctx) sentinel(name string) *Iface {
	if s, ok := c.sentinels[name]; ok {
		return s
	}
	s := c.newErr("sentinel:" + name)
	c.sentinels[name] = s
	return s
}

func (c *Ctx) osErrIs(v Value, name string) *Term {
	tt := c.tt
	target := c.sentinel(name)
	r := tt.F
	for _, al := range c.alts(v) {
		iv, ok := al.v.(*Iface)
		if !ok || iv.t == nil {
			continue
		}
		hit := c.valEq(iv, target)
		if e, isErr := iv.v.(*ErrObj); isErr && (e.tag == "patherror" || e.tag == "merged") {
			for _, w := range e.wraps {
				hit = tt.Or(hit, c.osErrIs(w, name))
			}
		}
		r = tt.Or(r, tt.And(al.g, hit))
	}
	return r
}

func inOsIsNotExist(c *Ctx, st *State, fn *ssa.Function, args []Value) (*State, Value) {
	return st, c.osErrIs(args[0], "ErrNotExist")
}
func inOsIsExist(c *Ctx, st *State, fn *ssa.Function, args []Value) (*State, Value) {
	return st, c.osErrIs(args[0], "ErrExist")
}

// ---------------------------------------------------------------- sync

func (c *Ctx) mutexState(st *State, p *Ptr) *Term {
	v := c.load(st, p).(*Struct)
	return v.f[0].(*Term)
}

func (c *Ctx) setMutexState(st *State, p *Ptr, t *Term) {
	c.guardOff++
	c.store(st, &Ptr{obj: p.obj, path: pathAppend(p.path, 0)}, t)
	c.guardOff--
}

func ptrArg(c *Ctx, st *State, v Value, what string) *Ptr {
	p, ok := v.(*Ptr)
	if !ok {
		panic(engineErr(fmt.Sprintf("UNMODELLED %s through %T", what, v)))
	}
	if p.obj == 0 {
		c.obligation(st, c.tt.T, "panic", "nilderef:"+what, "nil pointer dereference in "+what)
		return nil
	}
	return p
}

func inMutexLock(c *Ctx, st *State, fn *ssa.Function, args []Value) (*State, Value) {
	p := ptrArg(c, st, args[0], "Mutex.Lock")
	if p == nil {
		return nil, nil
	}
	c.guardOff++
	s := c.mutexState(st, p)
	c.guardOff--
	held := c.tt.Not(c.tt.Eq(s, c.tt.Const(32, 0)))
	c.obligation(st, held, "assert", "deadlock:Lock", "Lock of a mutex already held by this goroutine (self-deadlock) in "+c.where())
	if held.IsTrue() {
		return nil, nil
	}
	c.setMutexState(st, p, c.tt.Const(32, 1))
	c.trace = append(c.trace, "lock")
	return st, nil
}

func inMutexUnlock(c *Ctx, st *State, fn *ssa.Function, args []Value) (*State, Value) {
	p := ptrArg(c, st, args[0], "Mutex.Unlock")
	if p == nil {
		return nil, nil
	}
	c.guardOff++
	s := c.mutexState(st, p)
	c.guardOff--
	free := c.tt.Eq(s, c.tt.Const(32, 0))
	c.obligation(st, free, "panic", "unlock:unlocked", "Unlock of unlocked mutex in "+c.where())
	if free.IsTrue() {
		return nil, nil
	}
	c.setMutexState(st, p, c.tt.Const(32, 0))
	c.trace = append(c.trace, "unlock")
	return st, nil
}

// RWMutex{w Mutex; writerSem, readerSem uint32; readerCount, readerWait atomic.Int32}: we use w.state as writer flag
// and writerSem as reader count.
func inRWLock(c *Ctx, st *State, fn *ssa.Function, args []Value) (*State, Value) {
	p := ptrArg(c, st, args[0], "RWMutex.Lock")
	if p == nil {
		return nil, nil
	}
	w := &Ptr{obj: p.obj, path: pathAppend(p.path, 0)}
	c.guardOff++
	s := c.mutexState(st, w)
	rc := c.load(st, &Ptr{obj: p.obj, path: pathAppend(p.path, 1)}).(*Term)
	c.guardOff--
	busy := c.tt.Or(c.tt.Not(c.tt.Eq(s, c.tt.Const(32, 0))), c.tt.Not(c.tt.Eq(rc, c.tt.Const(32, 0))))
	c.obligation(st, busy, "assert", "deadlock:RWLock", "RWMutex.Lock while held by this goroutine in "+c.where())
	if busy.IsTrue() {
		return nil, nil
	}
	c.setMutexState(st, w, c.tt.Const(32, 1))
	return st, nil
}
func inRWUnlock(c *Ctx, st *State, fn *ssa.Function, args []Value) (*State, Value) {
	p := ptrArg(c, st, args[0], "RWMutex.Unlock")
	if p == nil {
		return nil, nil
	}
	w := &Ptr{obj: p.obj, path: pathAppend(p.path, 0)}
	c.guardOff++
	s := c.mutexState(st, w)
	c.guardOff--
	free := c.tt.Eq(s, c.tt.Const(32, 0))
	c.obligation(st, free, "panic", "rwunlock:unlocked", "RWMutex.Unlock of unlocked mutex")
	if free.IsTrue() {
		return nil, nil
	}
	c.setMutexState(st, w, c.tt.Const(32, 0))
	return st, nil
}
func inRWRLock(c *Ctx, st *State, fn *ssa.Function, args []Value) (*State, Value) {
	p := ptrArg(c, st, args[0], "RWMutex.RLock")
	if p == nil {
		return nil, nil
	}
	w := &Ptr{obj: p.obj, path: pathAppend(p.path, 0)}
	c.guardOff++
	s := c.mutexState(st, w)
	rp := &Ptr{obj: p.obj, path: pathAppend(p.path, 1)}
	rc := c.load(st, rp).(*Term)
	busy := c.tt.Not(c.tt.Eq(s, c.tt.Const(32, 0)))
	c.guardOff--
	c.obligation(st, busy, "assert", "deadlock:RLock", "RWMutex.RLock while write-locked by this goroutine in "+c.where())
	if busy.IsTrue() {
		return nil, nil
	}
	c.guardOff++
	c.store(st, rp, c.tt.Bin(OpAdd, rc, c.tt.Const(32, 1)))
	c.guardOff--
	return st, nil
}
func inRWRUnlock(c *Ctx, st *State, fn *ssa.Function, args []Value) (*State, Value) {
	p := ptrArg(c, st, args[0], "RWMutex.RUnlock")
	if p == nil {
		return nil, nil
	}
	rp := &Ptr{obj: p.obj, path: pathAppend(p.path, 1)}
	c.guardOff++
	rc := c.load(st, rp).(*Term)
	c.guardOff--
	none := c.tt.Eq(rc, c.tt.Const(32, 0))
	c.obligation(st, none, "panic", "runlock:unlocked", "RWMutex.RUnlock of unlocked mutex")
	if none.IsTrue() {
		return nil, nil
	}
	c.guardOff++
	c.store(st, rp, c.tt.Bin(OpSub, rc, c.tt.Const(32, 1)))
	c.guardOff--
	return st, nil
}

func inOnceDo(c *Ctx, st *State, fn *ssa.Function, args []Value) (*State, Value) {
	p := ptrArg(c, st, args[0], "Once.Do")
	if p == nil {
		return nil, nil
	}
	// locate the done flag: first uint32 leaf
	path := p.path
	v := c.load(st, p)
	for {
		s, ok := v.(*Struct)
		if !ok {
			break
		}
		// pick first field that (transitively) holds a 32-bit term
		found := false
		for i, f := range s.f {
			if t, ok := f.(*Term); ok && t.w == 32 {
				path = pathAppend(path, i)
				v = f
				found = true
				break
			}
			if sub, ok := f.(*Struct); ok && len(sub.f) > 0 && i == 0 {
				path = pathAppend(path, i)
				v = sub
				found = true
				break
			}
		}
		if !found {
			panic(engineErr("sync.Once layout not recognised"))
		}
		if _, ok := v.(*Term); ok {
			break
		}
	}
	done := v.(*Term)
	if !done.IsConst() {
		panic(engineErr("UNMODELLED symbolic sync.Once state"))
	}
	if done.val != 0 {
		return st, nil
	}
	c.store(st, &Ptr{obj: p.obj, path: path}, c.tt.Const(32, 1))
	f, ok := args[1].(*Func)
	if !ok {
		panic(engineErr("UNMODELLED Once.Do with union func"))
	}
	ns, _ := c.callClosure(st, f, nil)
	return ns, nil
}

// ---------------------------------------------------------------- sort.Strings (insertion sort with symbolic comparisons)

func inSortStrings(c *Ctx, st *State, fn *ssa.Function, args []Value) (*State, Value) {
	for _, al := range c.alts(args[0]) {
		if len(c.alts(args[0])) > 1 {
			panic(engineErr("UNMODELLED sort.Strings on union slice"))
		}
		sl := al.v.(*Slice)
		elems := make([]Value, sl.n)
		for i := range elems {
			elems[i] = c.load(st, &Ptr{obj: sl.obj, path: pathAppend(sl.path, sl.off+i)})
		}
		// odd-even transposition network: n rounds of compare-exchange
		n := len(elems)
		for round := 0; round < n; round++ {
			for i := round % 2; i+1 < n; i += 2 {
				lt := c.strLessV(elems[i+1], elems[i])
				if lt.IsFalse() {
					continue
				}
				a, b := elems[i], elems[i+1]
				elems[i] = c.merge(lt, b, a)
				elems[i+1] = c.merge(lt, a, b)
			}
		}
		for i := range elems {
			c.store(st, &Ptr{obj: sl.obj, path: pathAppend(sl.path, sl.off+i)}, elems[i])
		}
	}
	return st, nil
}

func (c *Ctx) strLessV(a, b Value) *Term {
	tt := c.tt
	r := tt.F
	for _, al := range c.alts(a) {
		for _, bl := range c.alts(b) {
			x, y := al.v.(*Str), bl.v.(*Str)
			if x.opaque || y.opaque {
				panic(engineErr("INCONCLUSIVE ordering of opaque strings"))
			}
			r = tt.Or(r, tt.AndN(al.g, bl.g, c.strLess(x, y, false)))
		}
	}
	return r
}

func inRepeat(c *Ctx, st *State, fn *ssa.Function, args []Value) (*State, Value) {
	n := args[1].(*Term)
	if !n.IsConst() {
		panic(engineErr("UNMODELLED strings.Repeat with symbolic count"))
	}
	return st, c.lift1(args[0], func(s *Str) Value {
		r := &Str{b: make([]*Term, 0, len(s.b)*int(n.val))}
		for i := 0; i < int(n.val); i++ {
			r.b = append(r.b, s.b...)
		}
		return r
	})
}

// mergeAltsAny merges guarded values of any kind (guards exclusive): scalars become ite chains, structures are merged
// fieldwise, everything else becomes one normalised union (a single mkUnion instead of n pairwise merges).
func (c *Ctx) mergeAltsAny(in []Alt) Value {
	if len(in) == 0 {
		return nil
	}
	if len(in) == 1 {
		return in[0].v
	}
	switch in[0].v.(type) {
	case *Term:
		r := in[len(in)-1].v.(*Term)
		for i := len(in) - 2; i >= 0; i-- {
			r = c.tt.Ite(in[i].g, in[i].v.(*Term), r)
		}
		return r
	case *Struct, *Array, *Tuple:
		r := in[len(in)-1].v
		for i := len(in) - 2; i >= 0; i-- {
			r = c.merge(in[i].g, in[i].v, r)
		}
		return r
	}
	return c.mkUnion(append([]Alt(nil), in...))
}

// strings.Trim*/TrimRight/TrimLeft: only the opaque case is intrinsic (error texts being tidied for printing);
// anything else runs the real code.
func inTrimOpaqueOK(c *Ctx, st *State, fn *ssa.Function, args []Value) (*State, Value) {
	if s, ok := args[0].(*Str); ok && s.opaque {
		return st, s
	}
	saved := c.cfg.IntrinsicsOff
	off := map[string]bool{}
	for k, v := range saved {
		off[k] = v
	}
	off[fn.String()] = true
	c.cfg.IntrinsicsOff = off
	defer func() { c.cfg.IntrinsicsOff = saved }()
	return c.callFunction(st, fn, args)
}

// ---------------------------------------------------------------- sync.Map (a symbolic map kept in a side object)

func init() {
	intrinsics["(*sync.Map).Load"] = inSyncMapLoad
	intrinsics["(*sync.Map).Store"] = inSyncMapStore
	intrinsics["(*sync.Map).Delete"] = inSyncMapDelete
	intrinsics["(*sync.Map).LoadOrStore"] = inSyncMapLoadOrStore
	intrinsics["(*sync.Map).Range"] = inSyncMapRange
}

func (c *Ctx) syncMapRef(st *State, v Value) *MapRef {
	p := ptrArg(c, st, v, "sync.Map")
	if p == nil {
		return nil
	}
	key := fmt.Sprintf("%d%v", p.obj, p.path)
	id, ok := c.syncMaps[key]
	if !ok {
		id = c.newID()
		c.syncMaps[key] = id
		c.lazyGlobals = append(c.lazyGlobals, lazyGlobal{id, &Obj{v: &MapVal{}, label: "sync.Map", birth: id}})
	}
	if st.heap.get(id) == nil {
		st.heap.set(id, &Obj{v: &MapVal{}, label: "sync.Map", birth: id})
	}
	return &MapRef{obj: id}
}

func inSyncMapLoad(c *Ctx, st *State, fn *ssa.Function, args []Value) (*State, Value) {
	m := c.syncMapRef(st, args[0])
	if m == nil {
		return nil, nil
	}
	v, ok := c.mapLookup(st, m, args[1], &Iface{})
	return st, &Tuple{v: []Value{v, ok}}
}

func inSyncMapStore(c *Ctx, st *State, fn *ssa.Function, args []Value) (*State, Value) {
	m := c.syncMapRef(st, args[0])
	if m == nil {
		return nil, nil
	}
	c.mapUpdate(st, m, args[1], args[2])
	return st, nil
}

func inSyncMapDelete(c *Ctx, st *State, fn *ssa.Function, args []Value) (*State, Value) {
	m := c.syncMapRef(st, args[0])
	if m == nil {
		return nil, nil
	}
	c.mapDelete(st, m, args[1])
	return st, nil
}

func inSyncMapLoadOrStore(c *Ctx, st *State, fn *ssa.Function, args []Value) (*State, Value) {
	m := c.syncMapRef(st, args[0])
	if m == nil {
		return nil, nil
	}
	v, ok := c.mapLookup(st, m, args[1], args[2])
	if !ok.IsTrue() {
		// store only where absent: present entries keep their value (mapUpdate would overwrite), so add guarded
		mv := c.mapVal(st, m)
		n := &MapVal{entries: append(append([]MapEntry(nil), mv.entries...), MapEntry{k: args[1], v: args[2], present: c.tt.Not(ok)})}
		c.setMapVal(st, m, n)
	}
	return st, &Tuple{v: []Value{v, ok}}
}

func inSyncMapRange(c *Ctx, st *State, fn *ssa.Function, args []Value) (*State, Value) {
	m := c.syncMapRef(st, args[0])
	if m == nil {
		return nil, nil
	}
	f, ok := args[1].(*Func)
	if !ok {
		panic(engineErr("UNMODELLED sync.Map.Range with union func"))
	}
	n := len(c.mapVal(st, m).entries)
	cur := st
	for i := 0; i < n; i++ {
		e := c.mapVal(cur, m).entries[i]
		if e.present.IsFalse() {
			continue
		}
		with := cur
		var without *State
		if !e.present.IsTrue() {
			without = cur.fork()
			without.pc = append(without.pc, c.tt.Not(e.present))
			with.pc = append(with.pc, e.present)
		}
		ns, _ := c.callClosure(with, f, []Value{e.k, e.v}) // the callback's "continue" result is taken as true
		switch {
		case ns != nil && without != nil:
			cur, _ = c.mergeStates(ns, without)
		case ns != nil:
			cur = ns
		case without != nil:
			cur = without
		default:
			return nil, nil
		}
	}
	return cur, nil
}

// ---------------------------------------------------------------- reflect.DeepEqual (structural model)

func init() { intrinsics["reflect.DeepEqual"] = inDeepEqual }

func inDeepEqual(c *Ctx, st *State, fn *ssa.Function, args []Value) (*State, Value) {
	return st, c.deepEq(st, args[0], args[1], 0, map[[2]int]bool{})
}

// deepEq follows reflect.DeepEqual: nil and empty slices/maps differ, pointers are equal if identical or if their
// pointees are deeply equal, interfaces need identical dynamic types.
func (c *Ctx) deepEq(st *State, a, b Value, depth int, visiting map[[2]int]bool) *Term {
	tt := c.tt
	if depth > 40 {
		panic(engineErr("UNMODELLED reflect.DeepEqual: structure too deep"))
	}
	if ua, ok := a.(*Union); ok {
		r := tt.F
		for _, al := range ua.alts {
			r = tt.Or(r, tt.And(al.g, c.deepEq(st, al.v, b, depth+1, visiting)))
		}
		return r
	}
	if ub, ok := b.(*Union); ok {
		r := tt.F
		for _, bl := range ub.alts {
			r = tt.Or(r, tt.And(bl.g, c.deepEq(st, a, bl.v, depth+1, visiting)))
		}
		return r
	}
	switch x := a.(type) {
	case *Term:
		y, ok := b.(*Term)
		if !ok {
			return tt.F
		}
		return tt.Eq(x, y)
	case *Str:
		y, ok := b.(*Str)
		if !ok {
			return tt.F
		}
		return c.valEq(x, y)
	case *Iface:
		y, ok := b.(*Iface)
		if !ok {
			return tt.F
		}
		if x.t == nil || y.t == nil {
			return tt.Bool(x.t == nil && y.t == nil)
		}
		if _, isErr := x.v.(*ErrObj); isErr {
			return c.valEq(x, y)
		}
		if _, isErr := y.v.(*ErrObj); isErr {
			return tt.F
		}
		if !types.Identical(x.t, y.t) {
			return tt.F
		}
		return c.deepEq(st, x.v, y.v, depth+1, visiting)
	case *Struct:
		y, ok := b.(*Struct)
		if !ok || len(x.f) != len(y.f) {
			return tt.F
		}
		r := tt.T
		for i := range x.f {
			r = tt.And(r, c.deepEq(st, x.f[i], y.f[i], depth+1, visiting))
			if r.IsFalse() {
				break
			}
		}
		return r
	case *Array:
		y, ok := b.(*Array)
		if !ok || len(x.e) != len(y.e) {
			return tt.F
		}
		r := tt.T
		for i := range x.e {
			r = tt.And(r, c.deepEq(st, x.e[i], y.e[i], depth+1, visiting))
		}
		return r
	case *Ptr:
		y, ok := b.(*Ptr)
		if !ok {
			return tt.F
		}
		if x.obj == 0 || y.obj == 0 {
			return tt.Bool(x.obj == 0 && y.obj == 0)
		}
		if x.sym != nil || y.sym != nil {
			panic(engineErr("UNMODELLED reflect.DeepEqual on symbolic-index pointers"))
		}
		if x.obj == y.obj && pathEq(x.path, y.path) {
			return tt.T
		}
		key := [2]int{x.obj, y.obj}
		if visiting[key] {
			return tt.T // cycle: assume equal, as reflect does for pairs already being compared
		}
		visiting[key] = true
		r := c.deepEq(st, c.load(st, x), c.load(st, y), depth+1, visiting)
		delete(visiting, key)
		return r
	case *Slice:
		y, ok := b.(*Slice)
		if !ok {
			return tt.F
		}
		if (x.obj == 0) != (y.obj == 0) {
			return tt.F // nil versus non-nil (even if empty)
		}
		if x.n != y.n {
			return tt.F
		}
		r := tt.T
		for i := 0; i < x.n; i++ {
			ea := c.load(st, &Ptr{obj: x.obj, path: pathAppend(x.path, x.off+i)})
			eb := c.load(st, &Ptr{obj: y.obj, path: pathAppend(y.path, y.off+i)})
			r = tt.And(r, c.deepEq(st, ea, eb, depth+1, visiting))
		}
		return r
	case *MapRef:
		y, ok := b.(*MapRef)
		if !ok {
			return tt.F
		}
		if (x.obj == 0) != (y.obj == 0) {
			return tt.F
		}
		if x.obj == 0 || x.obj == y.obj {
			return tt.T
		}
		mx, my := c.mapVal(st, x), c.mapVal(st, y)
		r := tt.Eq(c.mapLen(st, x), c.mapLen(st, y))
		for _, e := range mx.entries {
			if e.present.IsFalse() {
				continue
			}
			v, ok := c.mapLookup(st, y, e.k, e.v)
			r = tt.And(r, tt.Implies(e.present, tt.And(ok, c.deepEq(st, e.v, v, depth+1, visiting))))
		}
		_ = my
		return r
	case *Func:
		y, ok := b.(*Func)
		return tt.Bool(ok && x.fn == nil && y.fn == nil && x.builtin == "" && y.builtin == "")
	case nil:
		return tt.Bool(b == nil)
	}
	panic(engineErr(fmt.Sprintf("UNMODELLED reflect.DeepEqual on %T", a)))
}

// ---------------------------------------------------------------- sort.Slice / sort.SliceStable

func init() {
	intrinsics["sort.Slice"] = func(c *Ctx, st *State, fn *ssa.Function, args []Value) (*State, Value) {
		return c.sortSlice(st, args, false)
	}
	intrinsics["sort.SliceStable"] = func(c *Ctx, st *State, fn *ssa.Function, args []Value) (*State, Value) {
		return c.sortSlice(st, args, true)
	}
}

// insertion sort driven by the less callback. For sort.Slice this is what the library itself does up to 12 elements;
// beyond that its algorithm is not stable and is not modelled. SliceStable is stable for every length.
func (c *Ctx) sortSlice(st *State, args []Value, stable bool) (*State, Value) {
	iv, ok := args[0].(*Iface)
	if !ok || iv.t == nil {
		panic(engineErr("UNMODELLED sort.Slice on a union/nil interface"))
	}
	sl, ok := iv.v.(*Slice)
	if !ok {
		panic(engineErr("UNMODELLED sort.Slice on a non-slice or union slice"))
	}
	less, ok := args[1].(*Func)
	if !ok {
		panic(engineErr("UNMODELLED sort.Slice with union less function"))
	}
	at := func(i int) *Ptr { return &Ptr{obj: sl.obj, path: pathAppend(sl.path, sl.off+i)} }
	if !stable && sl.n > 12 {
		// beyond 12 elements the library runs pattern-defeating quicksort: execute its real code (sort.pdqsort_func)
		// with the element swapper reflectlite would have built
		sp := c.prog.ImportedPackage("sort")
		if sp == nil || sp.Func("pdqsort_func") == nil {
			panic(engineErr("UNMODELLED sort.Slice on more than 12 elements: sort.pdqsort_func not found"))
		}
		ls := &Struct{f: []Value{less, &Func{builtin: "vswapper", env: []Value{sl}}}}
		limit := uint64(bits.Len(uint(sl.n)))
		ns, _ := c.callFunction(st, sp.Func("pdqsort_func"), []Value{ls, c.tt.Const(64, 0), c.tt.Const(64, uint64(sl.n)), c.tt.Const(64, limit)})
		return ns, nil
	}
	cur := st
	for i := 1; i < sl.n; i++ {
		// inner loop of insertion sort with a symbolic continuation condition: "still moving" guard
		moving := c.tt.T
		for j := i; j > 0; j-- {
			ns, r := c.callClosure(cur, less, []Value{c.tt.Const(64, uint64(j)), c.tt.Const(64, uint64(j-1))})
			if ns == nil {
				return nil, nil
			}
			cur = ns
			lt := c.tt.And(moving, r.(*Term))
			if lt.IsFalse() {
				break
			}
			a, b := c.load(cur, at(j)), c.load(cur, at(j-1))
			c.store(cur, at(j), c.merge(lt, b, a))
			c.store(cur, at(j-1), c.merge(lt, a, b))
			moving = lt
		}
	}
	return cur, nil
}

// swapElems swaps s[i] and s[j] (what the function built by reflectlite.Swapper does); i and j may be symbolic.
func (c *Ctx) swapElems(st *State, s *Slice, iv, jv Value) *State {
	mk := func(v Value) *Ptr {
		t := v.(*Term)
		if t.IsConst() {
			return &Ptr{obj: s.obj, path: pathAppend(s.path, s.off+int(int64(t.val)))}
		}
		return &Ptr{obj: s.obj, path: s.path, sym: t, symOff: s.off, symN: s.n}
	}
	pi, pj := mk(iv), mk(jv)
	a, b := c.loadP(st, pi), c.loadP(st, pj)
	c.storeP(st, pi, b)
	c.storeP(st, pj, a)
	return st
}
