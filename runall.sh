#!/bin/bash
# runall.sh [tier] : run every registered check once, print rc and wall time
tier=${1:-quick}
for id in $(python3 -c "import json; print(' '.join(c['property_id'] for c in json.load(open('/verif/MANIFEST.json'))['checks']))"); do
  s=$(date +%s); out=$(cd /verif && timeout ${RUNALL_TIMEOUT:-3000} ./check $id --tier $tier 2>&1); rc=$?; e=$(date +%s)
  echo "$id rc=$rc $((e-s))s $(echo "$out" | grep -E '^check' | cut -c1-150)"
  [ $rc -ne 0 ] && echo "$out" | grep -E "VIOLATION|INCONCLUSIVE|violated" | head -3 | cut -c1-300
done
