#!/usr/bin/env python3
"""seedverify.py <ID>... : independently confirm a seeded change delivered under /tmp/seedout/<ID>/ and, if it holds up,
keep it as /verif/seeded/<ID>/ (patch.diff, demonstration, meta.json).
Confirmation, all in a scratch worktree of /repo's HEAD:
  1. patch applies, every module builds and the existing suite passes with it;
  2. the demonstration fails with the patch;
  3. the demonstration passes without the patch."""
import sys, os, re, json, subprocess, shutil, tempfile, glob

ENV = dict(os.environ, GOFLAGS="-mod=mod", GOPROXY="off", GOSUMDB="off", GOTOOLCHAIN="local")
MODS = [".", "cmd/cdi", "cmd/validate", "schema", "specs-go"]


def sh(cmd, cwd, timeout=1500):
    p = subprocess.run(cmd, cwd=cwd, env=ENV, shell=isinstance(cmd, str), stdout=subprocess.PIPE, stderr=subprocess.STDOUT, text=True, timeout=timeout)
    return p.returncode, p.stdout


def main():
    args = sys.argv[1:]
    root, suffix = "/tmp/seedout", ""
    if args and args[0] == "--root":
        root, suffix, args = args[1], args[2], args[3:]
    for pid in args:
        src = root + "/" + pid
        if not os.path.exists(src + "/patch.diff"):
            print(pid, "no deliverable")
            continue
        demo_files = [f for f in glob.glob(src + "/*_test.go")]
        dp = open(src + "/demo_path.txt").read() if os.path.exists(src + "/demo_path.txt") else ""
        dests = {}
        for f in demo_files:
            b = os.path.basename(f)
            cands = [x.lstrip("./") for x in re.findall(r"([\w/.\-]+/" + re.escape(b) + r")", dp)]
            cands = [x for x in cands if not x.startswith("tmp/")] or cands
            dests[f] = cands[0] if cands else None
            if dests[f] and dests[f].startswith("tmp/"):
                # absolute path inside the agent's worktree
                m2 = re.search(r"/tmp/wt2?/C\d+/(\S+" + re.escape(b) + ")", dp)
                dests[f] = m2.group(1) if m2 else None
        if not demo_files or any(v is None for v in dests.values()):
            print(pid, "cannot determine demo placement", dests)
            continue
        m = re.search(r"-run\s+'?\"?([^'\"\s]+)", dp)
        runpat = m.group(1) if m else "."
        wt = tempfile.mkdtemp(prefix="seedverify_")
        os.rmdir(wt)
        sh(["git", "-C", "/repo", "worktree", "add", "--detach", wt, "HEAD"], "/")
        meta = {"property": pid, "run_pattern": runpat, "demo": {os.path.basename(k): v for k, v in dests.items()}}
        try:
            rc, out = sh(["git", "apply", src + "/patch.diff"], wt)
            if rc != 0:
                rc, out = sh(["git", "apply", "--3way", src + "/patch.diff"], wt)
            meta["patch_applies_on_head"] = rc == 0
            if rc != 0:
                meta["note"] = "patch does not apply on current HEAD: " + out[-300:]
                print(pid, "PATCH DOES NOT APPLY")
                json.dump(meta, open(src + "/verify.json", "w"), indent=1)
                continue
            _, head = sh(["git", "-C", "/repo", "rev-parse", "--short", "HEAD"], "/")
            meta["verified_against_repo_head"] = head.strip()
            ok = True
            for mod in MODS:
                rc, out = sh("go build ./... && go test -vet=off -count=1 ./...", os.path.join(wt, mod))
                if rc != 0:
                    ok = False
                    meta["suite_failure"] = mod + ": " + out[-600:]
            meta["suite_passes_with_patch"] = ok
            first = list(dests.values())[0]
            pkgdir = os.path.dirname(first)
            for f, d in dests.items():
                shutil.copy(f, os.path.join(wt, d))
            cmd = "go test -vet=off -count=1 -run '%s' ." % runpat
            rc, out = sh(cmd, os.path.join(wt, pkgdir))
            meta["demo_fails_with_patch"] = rc != 0
            meta["demo_output_with_patch"] = out[-500:]
            sh(["git", "apply", "-R", src + "/patch.diff"], wt)
            rcx, outx = sh(["git", "diff", "--stat"], wt)
            if outx.strip():
                sh("git checkout -- .", wt)
            rc, out = sh(cmd, os.path.join(wt, pkgdir))
            meta["demo_passes_without_patch"] = rc == 0
            if rc != 0:
                meta["demo_output_without_patch"] = out[-500:]
            meta["demo_cmd"] = "cd %s && %s" % (pkgdir, cmd)
            good = meta["suite_passes_with_patch"] and meta["demo_fails_with_patch"] and meta["demo_passes_without_patch"]
            meta["confirmed"] = good
            notes = open(src + "/notes.md").read() if os.path.exists(src + "/notes.md") else ""
            meta["needs_to_manifest"] = re.sub(r"\s+", " ", notes)[:1200]
            print(pid, "CONFIRMED" if good else "NOT CONFIRMED", {k: meta[k] for k in ("suite_passes_with_patch", "demo_fails_with_patch", "demo_passes_without_patch")})
            json.dump(meta, open(src + "/verify.json", "w"), indent=1)
            if good:
                dst = "/verif/seeded/" + pid + suffix
                os.makedirs(dst, exist_ok=True)
                shutil.copy(src + "/patch.diff", dst)
                for f in demo_files:
                    # keep demos under a name the go tool ignores inside /verif
                    shutil.copy(f, os.path.join(dst, os.path.basename(f) + ".txt"))
                if os.path.exists(src + "/notes.md"):
                    shutil.copy(src + "/notes.md", dst)
                json.dump(meta, open(dst + "/meta.json", "w"), indent=1)
        finally:
            sh(["git", "-C", "/repo", "worktree", "remove", "--force", wt], "/")


if __name__ == "__main__":
    main()
