#!/bin/bash
# seedfinal.sh [name...]: run every kept seeded change (seeded/<name>/patch.diff) against its property's quick check and, if that
# does not report a violation, against the checks of neighbouring properties that execute the same code; logs to /tmp/seedlogs_final/<name>.log
mkdir -p /tmp/seedlogs_final
declare -A ALT=( [C01]="C01 C13 C11" [C02]="C02 C13 C01 C14" [C03]="C03" [C04]="C04 C01" [C05]="C05 C08" [C06]="C06" [C07]="C07" [C08]="C08 C05"
 [C10]="C10 C16" [C11]="C11 C20" [C12]="C12 C11" [C13]="C13 C01" [C14]="C14 C02" [C15]="C15 C07" [C16]="C16 C10" [C17]="C17" [C18]="C18 C17" [C19]="C19" [C20]="C20 C11" )
names="$@"; [ -z "$names" ] && names=$(ls /verif/seeded | grep -E '^C[0-9]+(-r[0-9])?$')
for name in $names; do
  pid=${name%%-*}; log=/tmp/seedlogs_final/$name.log; : > $log
  [ "$pid" = "C09" ] && { echo "$name: not applicable (no check)"; continue; }
  for id in ${ALT[$pid]}; do
    SEED_TIMEOUT=1500 /verif/seedtest.sh /verif/seeded/$name/patch.diff $id >> $log 2>&1
    grep -q "rc\[$id\]=1" $log && break
    grep -q "PATCH DOES NOT APPLY" $log && break
  done
  if [ "$pid" = "C03" ] && ! grep -q "=1$" $log; then
    echo "-- thorough entry H_C03_manymounts_conc" >> $log
    TIER=thorough VERIF_ONLY_ENTRY=H_C03_manymounts_conc SEED_TIMEOUT=1500 /verif/seedtest.sh /verif/seeded/$name/patch.diff C03 2>&1 | sed 's/^rc\[C03\]/rc[C03-thorough]/' >> $log
  fi
  echo "$name: $(grep -E '^rc\[|PATCH DOES' $log | tr '\n' ' ')"
done
echo FINALDONE
