#!/bin/bash
# seedtest.sh <patch.diff> <check-id>... : apply a seeded change to a scratch worktree of /repo, run the checks against it, remove it.
patch=$1; shift
wt=$(mktemp -d /tmp/seedwt.XXXXXX)
git -C /repo worktree add --detach "$wt" HEAD >/dev/null 2>&1 || exit 3
cd "$wt"
if ! git apply "$patch" 2>/dev/null; then
  if ! git apply --3way "$patch" 2>/dev/null; then echo "PATCH DOES NOT APPLY: $patch"; cd /; git -C /repo worktree remove --force "$wt"; exit 3; fi
fi
ev=$(mktemp -d /tmp/seedev.XXXXXX)
for id in "$@"; do
  (cd /verif && VERIF_REPO=$wt VERIF_EVIDENCE_DIR=$ev timeout ${SEED_TIMEOUT:-3000} ./check $id --tier ${TIER:-quick} 2>&1 | cut -c1-300 | grep -E "^(check|VIOLATION|INCONCLUSIVE|KNOWN|  violated)" | head -6; echo "rc[$id]=${PIPESTATUS[0]}")
done
cd /; git -C /repo worktree remove --force "$wt"; rm -rf "$ev"
