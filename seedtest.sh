#!/bin/bash
# seedtest.sh <patch.diff> <check-id>... : apply a seeded change to /repo, run the checks, undo it.
patch=$1; shift
cd /repo || exit 3
if ! git apply --check "$patch" 2>/dev/null; then
  if ! git apply --3way --check "$patch" 2>/dev/null; then echo "PATCH DOES NOT APPLY: $patch"; exit 3; fi
fi
git apply "$patch" || git apply --3way "$patch"
for id in "$@"; do
  (cd /verif && timeout 3000 ./check $id --tier ${TIER:-quick} 2>&1 | cut -c1-300 | grep -E "^(check|VIOLATION|INCONCLUSIVE|KNOWN|  violated)" | head -8; echo "rc[$id]=${PIPESTATUS[0]}")
done
cd /repo && git checkout -- . && git status --short | grep -v validate
