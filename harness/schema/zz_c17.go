package schema

// C17 (glue clauses) — the repository code around the JSON-schema interpreter: JSON and YAML encodings of one document
// get the same verdict, all entry points agree on documents with well-formed annotations, and the 'none' / nil schema
// never rejects. The interpreter's verdict for the document is an uninterpreted boolean (gojsonschema cannot be encoded);
// that it equals what draft-07 assigns to the shipped schema files is NOT claimed.

import (
	"errors"
	"io"
	"strings"

	gs "github.com/xeipuuv/gojsonschema"
	"sigs.k8s.io/yaml"
	cdi "tags.cncf.io/container-device-interface/specs-go"
)

func init() { vregister("H_C17_glue", H_C17_glue) }

var (
	vTree      map[string]interface{}
	vDocValid  bool
	vJSONBytes = []byte(`{"doc":1}`)
	vYAMLBytes = []byte("doc: 1")
)

func stubYAMLUnmarshal17(data []byte, obj interface{}, opts ...yaml.JSONOpt) error {
	p := obj.(*map[string]interface{})
	*p = vTree
	return nil
}

func stubJSONUnmarshal17(data []byte, obj interface{}) error {
	p := obj.(*map[string]interface{})
	*p = vTree
	return nil
}

func stubJSONMarshal17(v interface{}) ([]byte, error) { return []byte(`{"doc":2}`), nil }

func stubReadAll17(r io.Reader) ([]byte, error) { return vJSONBytes, nil }

func stubReadFile17(name string) ([]byte, error) {
	if strings.HasSuffix(name, ".json") {
		return vJSONBytes, nil
	}
	return vYAMLBytes, nil
}

// The interpreter's contract as far as the glue depends on it: loaders that hand it JSON text or marshal a Go value
// (bytes, reader, Go, reference loaders) present the *normalised* document, whose verdict is the one uninterpreted
// boolean vDocValid; bytes that are not JSON fail to load; a raw loader presents whatever Go value it was given without
// normalisation (gojsonschema documents NewRawLoader as "no conversion"), so its verdict is a different, unconstrained boolean.
var (
	vRawLoaderUsed bool
	vRawVerdict    bool
	vCurVerdict    bool
)

func stubNewRawLoader17(src interface{}) gs.JSONLoader {
	vRawLoaderUsed = true
	return gs.NewGoLoader(src)
}

func stubSchemaValidate17(s *gs.Schema, l gs.JSONLoader) (*gs.Result, error) {
	vCurVerdict = vDocValid
	if vRawLoaderUsed {
		vRawLoaderUsed = false
		vCurVerdict = vRawVerdict
	} else if b, ok := l.JsonSource().([]byte); ok && len(b) > 0 && b[0] != '{' {
		return nil, errors.New("invalid character looking for beginning of value")
	}
	return &gs.Result{}, nil
}

func stubResultValid17(r *gs.Result) bool { return vCurVerdict }

type vReader struct{}

func (vReader) Read(p []byte) (int, error) { return 0, io.EOF }

func vAnnotations(p string) (interface{}, bool, bool) {
	// returns (value, present, wellFormed)
	switch nondetChoice(p+"ann", 6) {
	case 1:
		return "text", true, false
	case 2:
		return float64(5), true, false
	case 3:
		k := nondetString(p+"key", 3)
		for i := 0; i < len(k); i++ {
			vassume(k[i] < 0x80)
		}
		ok := vregex(`^([A-Za-z0-9]([-A-Za-z0-9]*[A-Za-z0-9])?(\.[A-Za-z0-9]([-A-Za-z0-9]*[A-Za-z0-9])?)*/)?([A-Za-z0-9][-A-Za-z0-9_.]*)?[A-Za-z0-9]$`, k)
		return map[string]interface{}{k: "v"}, true, ok
	case 4:
		return map[string]interface{}{"k": float64(7)}, true, false
	case 5:
		return []interface{}{}, true, false
	}
	return nil, false, true
}

func H_C17_glue() {
	// (the package initialiser is not run by the engine: set the document bytes here)
	vJSONBytes = []byte(`{"doc":1}`)
	vYAMLBytes = []byte("doc: 1")
	vDocValid = nondetBool("schema-verdict-of-the-document")
	vRawVerdict = nondetBool("schema-verdict-of-an-unnormalised-value")
	vRawLoaderUsed = false
	vTree = map[string]interface{}{"cdiVersion": "0.6.0", "kind": "v/c"}
	wf := true
	if a, present, ok := vAnnotations("s."); present {
		vTree["annotations"] = a
		wf = wf && ok
	}
	switch nondetChoice("devices", 4) {
	case 1:
		vTree["devices"] = "text"
	case 2:
		vTree["devices"] = []interface{}{"not-an-object"}
		// the shipped schema types device entries as objects: no interpreter verdict can be "valid" for this document
		vassume(!vDocValid)
	case 3:
		dev := map[string]interface{}{"name": "d"}
		if a, present, ok := vAnnotations("d."); present {
			dev["annotations"] = a
			wf = wf && ok
		}
		vTree["devices"] = []interface{}{dev}
	}
	var s *Schema
	kind := nondetChoice("schema", 3)
	switch kind {
	case 0:
		s = &Schema{schema: &gs.Schema{}} // builtin or externally loaded: a compiled schema
	case 1:
		s = NopSchema()
	case 2:
		s = nil
	}
	okDataJSON := s.ValidateData(vJSONBytes) == nil
	okDataYAML := s.ValidateData(vYAMLBytes) == nil
	okFileJSON := s.ValidateFile("/doc.json") == nil
	okFileYAML := s.ValidateFile("/doc.yaml") == nil
	okReader := s.ValidateReader(vReader{}) == nil
	_, rerr := s.ReadAndValidate(vReader{})
	okType := s.ValidateType(&cdi.Spec{}) == nil
	okSpec := s.Validate(&cdi.Spec{}) == nil
	if kind == 0 {
		vreach("compiled-schema")
		vassert("bytes-json-and-yaml-same-verdict", okDataJSON == okDataYAML)
		vassert("file-json-and-yaml-same-verdict", okFileJSON == okFileYAML)
		if wf {
			vreach("wellformed-annotations")
			vassert("all-entry-points-agree-on-wellformed-annotations",
				okDataJSON == vDocValid && okDataYAML == vDocValid && okFileJSON == vDocValid && okFileYAML == vDocValid &&
					okReader == vDocValid && (rerr == nil) == vDocValid && okType == vDocValid && okSpec == vDocValid)
		}
		// a document the schema rejects is never accepted
		if !vDocValid {
			vassert("schema-invalid-documents-are-rejected-everywhere", !okDataJSON && !okDataYAML && !okFileJSON && !okFileYAML && !okReader && !okType && !okSpec)
		}
	} else {
		vreach("none-or-nil-schema")
		vassert("none-and-nil-schema-never-reject", okDataJSON && okDataYAML && okFileJSON && okFileYAML && okReader && rerr == nil && okType && okSpec)
	}
}
