package specs

// C06 — minimum required version is exact and placement independent; version validity.
// Oracle: the feature table of the property statement, written as index-based loops (no range-variable aliasing).

func init() {
	vregister("H_C06_min", H_C06_min)
	vregister("H_C06_validate", H_C06_validate)
	vregister("H_C06_membership", H_C06_membership)
}

var vReleased = []string{"0.1.0", "0.2.0", "0.3.0", "0.4.0", "0.5.0", "0.6.0", "0.7.0", "0.8.0", "1.0.0"}

func vEdits(p string) ContainerEdits {
	var e ContainerEdits
	mounts := []*Mount{
		{HostPath: "/h", ContainerPath: "/c", Type: nondetStringU(p+"m0type", 1)},
		{HostPath: "/h", ContainerPath: "/c", Type: nondetStringU(p+"m1type", 1)},
	}
	e.Mounts = mounts[:nondetIntRange(p+"nmounts", 0, 2)]
	nodes := []*DeviceNode{
		{Path: "/dev/a", HostPath: nondetStringU(p+"n0host", 1)},
		{Path: "/dev/b", HostPath: nondetStringU(p+"n1host", 1)},
	}
	e.DeviceNodes = nodes[:nondetIntRange(p+"nnodes", 0, 2)]
	if nondetBool(p + "rdt") {
		e.IntelRdt = &IntelRdt{}
	}
	gids := []uint32{nondetU32(p + "gid0"), nondetU32(p + "gid1")}
	e.AdditionalGIDs = gids[:nondetIntRange(p+"ngids", 0, 2)]
	return e
}

func vAnnotations(p string) map[string]string {
	switch nondetIntRange(p+"ann", 0, 2) {
	case 1:
		return map[string]string{}
	case 2:
		return map[string]string{"k": "v"}
	}
	return nil
}

func vBuildSpec() *Spec {
	s := &Spec{}
	s.Kind = nondetStringU("kind", vparam("KIND"))
	s.Annotations = vAnnotations("s.")
	s.ContainerEdits = vEdits("s.")
	n := nondetLen("ndev", 0, vparam("NDEV"))
	for i := 0; i < n; i++ {
		p := "d" + string(rune('0'+i)) + "."
		s.Devices = append(s.Devices, Device{
			Name:           nondetStringU(p+"name", 2),
			Annotations:    vAnnotations(p),
			ContainerEdits: vEdits(p),
		})
	}
	return s
}

// reference: index of the minimum required version in vReleased
func vEditsLevel(e *ContainerEdits) int {
	lvl := 2 // 0.3.0
	for i := 0; i < len(e.Mounts); i++ {
		if e.Mounts[i].Type != "" && lvl < 3 {
			lvl = 3
		}
	}
	for i := 0; i < len(e.DeviceNodes); i++ {
		if e.DeviceNodes[i].HostPath != "" && lvl < 4 {
			lvl = 4
		}
	}
	if e.IntelRdt != nil || len(e.AdditionalGIDs) > 0 {
		lvl = 6
	}
	return lvl
}

func vDottedClass(kind string) bool {
	// class = everything after the first '/', if any
	for i := 0; i < len(kind); i++ {
		if kind[i] == '/' {
			for j := i + 1; j < len(kind); j++ {
				if kind[j] == '.' {
					return true
				}
			}
			return false
		}
	}
	return false
}

func vRefMin(s *Spec) int {
	lvl := vEditsLevel(&s.ContainerEdits)
	if (len(s.Annotations) > 0 || vDottedClass(s.Kind)) && lvl < 5 {
		lvl = 5
	}
	for i := 0; i < len(s.Devices); i++ {
		d := &s.Devices[i]
		if l := vEditsLevel(&d.ContainerEdits); l > lvl {
			lvl = l
		}
		if len(d.Name) > 0 && d.Name[0] >= '0' && d.Name[0] <= '9' && lvl < 4 {
			lvl = 4
		}
		if len(d.Annotations) > 0 && lvl < 5 {
			lvl = 5
		}
	}
	return lvl
}

func vVersionOf(lvl int) string {
	switch lvl {
	case 2:
		return "0.3.0"
	case 3:
		return "0.4.0"
	case 4:
		return "0.5.0"
	case 5:
		return "0.6.0"
	case 6:
		return "0.7.0"
	}
	return "?"
}

func H_C06_min() {
	vmapOrder(nondetChoice("maporder", 2))
	s := vBuildSpec()
	want := vRefMin(s)
	got, err := MinimumRequiredVersion(s)
	vassert("min-no-error", err == nil)
	vassert("min-exact", got == vVersionOf(want))
	if want == 2 {
		vreach("min-0.3.0")
	}
	if want == 6 {
		vreach("min-0.7.0")
	}
	// reordering the devices does not change the result
	n := len(s.Devices)
	if n >= 2 {
		i := nondetChoice("swap-i", n)
		j := nondetChoice("swap-j", n)
		s.Devices[i], s.Devices[j] = s.Devices[j], s.Devices[i]
		got2, _ := MinimumRequiredVersion(s)
		vassert("min-order-independent", got2 == got)
		vreach("reordered")
	}
}

var vDeclMenu = []string{"0.1.0", "0.2.0", "0.3.0", "0.4.0", "0.5.0", "0.6.0", "0.7.0", "0.8.0", "1.0.0",
	"", "0.2", "0.9.0", "1.0.1", "1.0.0-rc1", "2.0.0", "0.3", "1.0", "0.10.0", "00.3.0"}

func H_C06_validate() {
	s := vBuildSpec()
	k := nondetChoice("decl", len(vDeclMenu))
	s.Version = vDeclMenu[k]
	want := vRefMin(s)
	ok := ValidateVersion(s) == nil
	released := k < len(vReleased)
	vassert("valid-iff-released-and-not-lower", ok == (released && k >= want))
	if ok {
		vreach("version-valid")
	} else {
		vreach("version-invalid")
	}
}

// any string other than the nine released spellings (the "v"-prefixed spellings are left unconstrained) is invalid
func H_C06_membership() {
	decl := nondetString("decl", 6)
	s := &Spec{Version: decl, Kind: "v/c"}
	isReleased := false // released and not older than the minimum every Spec requires (0.3.0)
	isVSpelling := false
	for i := 0; i < len(vReleased); i++ {
		if decl == vReleased[i] && i >= 2 {
			isReleased = true
		}
		if decl == "v"+vReleased[i] {
			isVSpelling = true
		}
	}
	ok := ValidateVersion(s) == nil
	if !isVSpelling {
		vassert("unreleased-spelling-invalid", ok == isReleased)
	}
	if ok {
		vreach("released")
	}
}
