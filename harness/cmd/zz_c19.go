package cmd

// C19 — the cdi command reports what the library computes for the directories given with --spec-dirs.
// The helpers behind the subcommands are run after initSpecDirs(); everything they pass to Printf and to the object
// marshaller is recorded and compared with a fresh manual-refresh cache over exactly those directories.

import (
	"io/fs"
	"os"
	"path/filepath"
	"strings"
	"time"

	"github.com/fsnotify/fsnotify"
	oci "github.com/opencontainers/runtime-spec/specs-go"
	"sigs.k8s.io/yaml"

	"tags.cncf.io/container-device-interface/pkg/cdi"
	"tags.cncf.io/container-device-interface/schema"
	cdispec "tags.cncf.io/container-device-interface/specs-go"
)

func init() { vregister("H_C19_report", H_C19_report) }

// ---- a small directory model: each of the three directories is missing, or holds x.json valid / invalid

type vDirM struct {
	path   string
	state  int // 0 missing, 1 valid x.json, 2 invalid x.json, 3 empty directory
	vendor string
	dev    string
}

var vDirs []*vDirM

func vDirOf(p string) *vDirM {
	for _, d := range vDirs {
		if d.path == p {
			return d
		}
	}
	return nil
}

type vInfo struct {
	name string
	dir  bool
}

func (i *vInfo) Name() string { return i.name }
func (i *vInfo) Size() int64  { return 0 }
func (i *vInfo) Mode() fs.FileMode {
	if i.dir {
		return fs.ModeDir | 0o755
	}
	return 0o644
}
func (i *vInfo) ModTime() time.Time { return time.Time{} }
func (i *vInfo) IsDir() bool        { return i.dir }
func (i *vInfo) Sys() interface{}   { return nil }

func stubLstat19(name string) (fs.FileInfo, error) {
	if d := vDirOf(name); d != nil {
		if d.state == 0 {
			return nil, vPathErr("lstat", os.ErrNotExist)
		}
		return &vInfo{name: filepath.Base(name), dir: true}, nil
	}
	if d := vDirOf(filepath.Dir(name)); d != nil && (d.state == 1 || d.state == 2) && filepath.Base(name) == "x.json" {
		return &vInfo{name: "x.json"}, nil
	}
	return nil, vPathErr("lstat", os.ErrNotExist)
}

func stubReadDirNames19(dirname string) ([]string, error) {
	if d := vDirOf(dirname); d != nil && d.state != 0 {
		if d.state == 3 {
			return nil, nil
		}
		return []string{"x.json"}, nil
	}
	return nil, vPathErr("open", os.ErrNotExist)
}

var vReading *vDirM

func stubReadFile19(name string) ([]byte, error) {
	d := vDirOf(filepath.Dir(name))
	if d == nil || (d.state != 1 && d.state != 2) {
		return nil, vPathErr("open", os.ErrNotExist)
	}
	vReading = d
	return []byte("x"), nil
}

func stubUnmarshalStrict19(data []byte, obj interface{}, opts ...yaml.JSONOpt) error {
	p := obj.(**cdispec.Spec)
	d := vReading
	if d.state == 2 {
		return vPathErr("decode", os.ErrInvalid)
	}
	*p = &cdispec.Spec{Version: "0.6.0", Kind: d.vendor + "/c", Devices: []cdispec.Device{{Name: d.dev, ContainerEdits: cdispec.ContainerEdits{Env: []string{"DEV=" + d.dev}}}}}
	return nil
}

func stubNewWatcher19() (*fsnotify.Watcher, error) {
	return &fsnotify.Watcher{Events: make(chan fsnotify.Event, 1), Errors: make(chan error, 1)}, nil
}

func stubWatcherAdd19(w *fsnotify.Watcher, name string) error {
	if d := vDirOf(name); d == nil || d.state == 0 {
		return vPathErr("inotify_add_watch", os.ErrNotExist)
	}
	return nil
}

func stubWatcherClose19(w *fsnotify.Watcher) error { return nil }

func stubSchemaLoad19(name string) (*schema.Schema, error) { return nil, nil }

// ---- recording what the tool prints

var (
	vPrinted   []string
	vMarshaled []interface{}
	vExpectErr bool
	vExited    bool
	vWantErrs  map[string][]error
)

func stubPrintf19(format string, a ...interface{}) (int, error) {
	if strings.Contains(format, "%v") {
		return 0, nil // lines carrying error messages (free text) are not part of the comparison
	}
	for _, x := range a {
		if s, ok := x.(string); ok {
			vPrinted = append(vPrinted, s)
		}
	}
	return 0, nil
}

func stubMarshalObject19(level int, obj interface{}, format string) string {
	vMarshaled = append(vMarshaled, obj)
	return ""
}

// indentation is text layout (outside the claim); the real one is built with Sprintf
func stubIndent19(level int) string { return "" }

func stubExit19(code int) {
	vreach("exit")
	vassert("exit-status-nonzero-iff-the-library-reports-cache-errors", (code != 0) == vExpectErr)
	// the tool reports exactly the files in error: before it gives up it has named every one of them
	for f := range vWantErrs {
		vassert("files-in-error-are-reported-before-exit", vPrintedHas(f))
	}
	vExited = true
	vhalt()
}

func vPrintedHas(s string) bool {
	for _, p := range vPrinted {
		if p == s {
			return true
		}
	}
	return false
}

func vHas(l []string, s string) bool {
	for _, x := range l {
		if x == s {
			return true
		}
	}
	return false
}

func vMaterialise19() {
	root, err := os.MkdirTemp("", "vfs19")
	if err != nil {
		panic(err)
	}
	for i, d := range vDirs {
		d.path = filepath.Join(root, []string{"a", "etc", "run"}[i])
		if d.state == 0 {
			continue
		}
		os.MkdirAll(d.path, 0o755)
		switch d.state {
		case 1:
			os.WriteFile(filepath.Join(d.path, "x.json"), []byte(`{"cdiVersion":"0.6.0","kind":"`+d.vendor+`/c","devices":[{"name":"`+d.dev+`","containerEdits":{"env":["DEV=`+d.dev+`"]}}]}`), 0o644)
		case 2:
			os.WriteFile(filepath.Join(d.path, "x.json"), []byte("cdiVersion: ["), 0o644)
		}
	}
}

func H_C19_report() {
	vDirs = []*vDirM{
		{path: "/vfs/a", vendor: "va", dev: "a"},
		{path: "/etc/cdi", vendor: "ve", dev: "e"},
		{path: "/var/run/cdi", vendor: "vr", dev: "r"},
	}
	for i, d := range vDirs {
		d.state = nondetChoice("dir"+string(rune('0'+i)), 4)
	}
	if vnative() {
		vMaterialise19()
		defer os.RemoveAll(filepath.Dir(vDirs[0].path))
	}
	dirA := vDirs[0].path
	// the package default directories (natively: their materialised stand-ins)
	cdi.DefaultSpecDirs = []string{vDirs[1].path, vDirs[2].path}
	// with --spec-dirs: exactly the directories on the command line; without: the default directories
	useFlag := nondetChoice("spec-dirs-given", 2) == 1
	inUse := func(d *vDirM) bool { return (d.path == dirA) == useFlag }
	var lib *cdi.Cache
	if useFlag {
		lib, _ = cdi.NewCache(cdi.WithSpecDirs(dirA))
	} else {
		lib, _ = cdi.NewCache()
	}
	wantDevs := lib.ListDevices()
	wantVendors := lib.ListVendors()
	wantErrs := lib.GetErrors()
	vExpectErr = len(wantErrs) > 0
	vWantErrs = wantErrs
	vPrinted = nil

	specDirs = nil
	if useFlag {
		specDirs = []string{dirA}
	}
	schemaName = "builtin"
	initSpecDirs()
	vassert("no-exit-means-no-cache-errors", !useFlag || !vExpectErr)
	vreach("initialised")

	sub := nondetChoice("subcommand", 5)
	vPrinted, vMarshaled = nil, nil
	switch sub {
	case 0:
		cdiListDevices(false, "")
	case 1:
		cdiListVendors()
	case 2:
		cdiListSpecs(false, "")
	case 3:
		cdiShowSpecDirs()
	case 4:
		o := &oci.Spec{}
		vmapOrder(1) // the engine iterates maps in reverse here: the result must not depend on map iteration order
		_ = cdiInjectDevices("json", o, []string{"*/*"})
		vmapOrder(0)
		ref := &oci.Spec{}
		_, _ = lib.InjectDevices(ref, wantDevs...)
		vassert("inject-prints-the-spec-that-library-injection-produces", len(vMarshaled) == 1 && vMarshaled[0] == interface{}(o))
		got, want := 0, 0
		if o.Process != nil {
			got = len(o.Process.Env)
		}
		if ref.Process != nil {
			want = len(ref.Process.Env)
		}
		vassert("inject-result-same-size", got == want)
		vassert("inject-result-equals-library-injection", got != want || got == 0 || o.Process.Env[0] == ref.Process.Env[0])
	}
	// every device / vendor / Spec file / directory of the universe is printed iff the library computes it
	for _, d := range vDirs {
		dev := d.vendor + "/c=" + d.dev
		file := d.path + "/x.json"
		switch sub {
		case 0:
			vassert("devices-listed-exactly", vPrintedHas(dev) == vHas(wantDevs, dev))
		case 1:
			vassert("vendors-listed-exactly", vPrintedHas(d.vendor) == vHas(wantVendors, d.vendor))
		case 2:
			// a Spec file is listed iff it loaded; a file in error is reported iff the library reports it
			_, inErr := wantErrs[file]
			vassert("spec-files-and-files-in-error-listed-exactly", vPrintedHas(file) == (vHas(wantVendors, d.vendor) || inErr))
		case 3:
			vassert("spec-dirs-listed-exactly", vPrintedHas(d.path) == inUse(d))
		}
	}
	_ = strings.TrimSpace
}
