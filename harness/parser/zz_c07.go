package parser

// C07 — qualified device name grammar: exact, total, round-trips.
// Oracle: the property's regular language, transcribed from the statement (not from the code).

import "strings"

const (
	vVendorRe = `[A-Za-z]([A-Za-z0-9_.-]*[A-Za-z0-9])?`
	vNameRe   = `[A-Za-z0-9]([A-Za-z0-9_.:-]*[A-Za-z0-9])?`
	vQualRe   = `^` + vVendorRe + `/` + vVendorRe + `=` + vNameRe + `$`
)

func init() {
	vregister("H_C07_grammar", H_C07_grammar)
	vregister("H_C07_validators", H_C07_validators)
	vregister("H_C07_compose", H_C07_compose)
	vregister("H_C07_split", H_C07_split)
}

func H_C07_grammar() {
	s := nondetString("s", vparam("N"))
	v, c, n, err := ParseQualifiedName(s)
	want := vregex(vQualRe, s)
	vassert("accept-iff-grammar", (err == nil) == want)
	vassert("IsQualifiedName-iff-grammar", IsQualifiedName(s) == want)
	if err == nil {
		vreach("accept")
		vassert("parts-nonempty", v != "" && c != "" && n != "")
		vassert("recompose", v+"/"+c+"="+n == s)
	} else {
		vreach("reject")
		vassert("fail-empty-vendor-class", v == "" && c == "")
		vassert("fail-name-verbatim", n == s)
	}
}

func H_C07_validators() {
	s := nondetString("s", vparam("M"))
	vassert("vendor-iff", (ValidateVendorName(s) == nil) == vregex(`^`+vVendorRe+`$`, s))
	vassert("class-iff", (ValidateClassName(s) == nil) == vregex(`^`+vVendorRe+`$`, s))
	vassert("device-iff", (ValidateDeviceName(s) == nil) == vregex(`^`+vNameRe+`$`, s))
	if ValidateDeviceName(s) == nil {
		vreach("device-ok")
	}
	if ValidateVendorName(s) != nil {
		vreach("vendor-bad")
	}
}

func H_C07_compose() {
	k := vparam("K")
	v := nondetString("v", k)
	c := nondetString("c", k)
	n := nondetString("n", k)
	vassume(vregex(`^`+vVendorRe+`$`, v))
	vassume(vregex(`^`+vVendorRe+`$`, c))
	vassume(vregex(`^`+vNameRe+`$`, n))
	vreach("valid-parts")
	q := QualifiedName(v, c, n)
	v2, c2, n2, err := ParseQualifiedName(q)
	vassert("compose-parses", err == nil)
	vassert("compose-roundtrip", v2 == v && c2 == c && n2 == n)
}

func H_C07_split() {
	s := nondetString("s", vparam("N"))
	// reference: split at the FIRST '=' and, left of it, at the FIRST '/'; all three parts non-empty
	i := strings.IndexByte(s, '=')
	j := strings.IndexByte(s, '/')
	okRef := i > 0 && i < len(s)-1 && j > 0 && j < i-1
	v, c, n := ParseDevice(s)
	vassert("split-iff-three-nonempty-parts", (v != "") == okRef)
	if v == "" {
		vreach("unsplit")
		vassert("unsplit-verbatim", c == "" && n == s)
	} else {
		vreach("split")
		vassert("split-recompose", c != "" && n != "" && v+"/"+c+"="+n == s)
		vassert("split-at-first-separators", !strings.Contains(v, "/") && !strings.Contains(v, "=") && !strings.Contains(c, "="))
	}
	qv, qc := ParseQualifier(s)
	vassert("qualifier-split-iff-two-nonempty-parts", (qv != "") == (j > 0 && j < len(s)-1))
	if qv == "" {
		vassert("qualifier-verbatim", qc == s)
	} else {
		vassert("qualifier-recompose", qc != "" && qv+"/"+qc == s)
		vassert("qualifier-split-at-first-slash", !strings.Contains(qv, "/"))
	}
}
