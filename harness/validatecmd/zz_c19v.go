package main

// C19 (validate tool) — the tool exits non-zero iff schema validation of a given document fails (or the schema
// cannot be loaded). main() is run with the flag package, the schema package and os.Exit replaced by stubs:
// the verdict of each document is an arbitrary boolean, the exit status must follow from the verdicts.

import (
	"io"
	"os"

	"tags.cncf.io/container-device-interface/schema"
)

func init() { vregister("H_C19_validate", H_C19_validate) }

var (
	vDocs      []string
	vVerdict   map[string]bool // document -> schema validation fails
	vLoadFails bool
	vSchemaArg string
	vExitSeen  bool
)

func stubStringVar(p *string, name string, value string, usage string) { *p = vSchemaArg }
func stubFlagParse()                                                   {}
func stubFlagArgs() []string                                           { return vDocs }

func stubSchemaLoad(source string) (*schema.Schema, error) {
	if vLoadFails {
		return nil, vNewErr19("cannot load schema")
	}
	return schema.NopSchema(), nil
}
func stubSchemaSet(s *schema.Schema) {}

func stubValidateData(data []byte) error {
	if vVerdict["<stdin>"] {
		return vNewErr19("document invalid")
	}
	return nil
}

func stubValidateFile(path string) error {
	if vVerdict[path] {
		return vNewErr19("document invalid")
	}
	return nil
}

func stubReadAllStdin(r io.Reader) ([]byte, error) { return []byte("{}"), nil }

type vErr19 struct{ s string }

func (e *vErr19) Error() string { return e.s }
func vNewErr19(s string) error  { return &vErr19{s} }

func stubExitValidate(code int) {
	vreach("exit")
	anyFail := false
	for _, d := range vDocs {
		k := d
		if d == "" || d == "-" {
			k = "<stdin>"
		}
		if vVerdict[k] {
			anyFail = true
		}
	}
	if len(vDocs) == 0 && vVerdict["<stdin>"] {
		anyFail = true
	}
	if vLoadFails && vSchemaArg != "" {
		vassert("schema-load-failure-exits-nonzero", code != 0)
	} else {
		vassert("exit-nonzero-iff-some-document-fails-validation", (code != 0) == anyFail)
	}
	vExitSeen = true
	vhalt()
}

func H_C19_validate() {
	menu := []string{"-", "a.json", "b.yaml", ""}
	n := nondetLen("ndocs", 0, 2)
	vDocs = nil
	for i := 0; i < n; i++ {
		vDocs = append(vDocs, menu[nondetChoice("doc"+string(rune('0'+i)), len(menu))])
	}
	vVerdict = map[string]bool{"<stdin>": nondetBool("stdin-invalid"), "a.json": nondetBool("a-invalid"), "b.yaml": nondetBool("b-invalid")}
	vLoadFails = nondetBool("schema-load-fails")
	if nondetBool("schema-flag-empty") {
		vSchemaArg = ""
	} else {
		vSchemaArg = "builtin"
	}
	_ = os.Args
	main()
	vassert("main-always-ends-in-exit", false)
}
