package cdi

import (
	"path/filepath"

	cdi "tags.cncf.io/container-device-interface/specs-go"
)

// C10 — Spec files are published atomically.  C16 — generated names are confined; write and remove are symmetric.

func init() {
	vregister("H_C10_atomic", H_C10_atomic)
	vregister("H_C16_names", H_C16_names)
	vregister("H_C16_effects", H_C16_effects)
	vregister("H_C16_remove_occupied", H_C16_remove_occupied)
}

func vValidRaw(kind string) *cdi.Spec {
	return &cdi.Spec{Version: "0.6.0", Kind: kind, Devices: []cdi.Device{{Name: "dev0", ContainerEdits: cdi.ContainerEdits{Env: []string{"A=b"}}}}}
}

func vWriterCache(dirs ...string) *Cache {
	c := &Cache{autoRefresh: false, watch: &watch{}}
	c.specDirs = dirs
	c.specs = map[string][]*Spec{}
	c.devices = map[string]*Device{}
	c.errors = map[string][]error{}
	c.dirErrors = map[string]error{}
	return c
}

func H_C10_atomic() {
	dir := "/vfs/run"
	vResetDisk(dir, nondetChoice("dir-exists", 2) == 1)
	names := []string{"vendor-class.json", "vendor-class.yaml", "vendor-class"}
	k := nondetChoice("name", 3)
	target := filepath.Join(dir, names[k])
	if k == 2 {
		target += ".yaml"
	}
	hadPrev := nondetBool("previous-file")
	if hadPrev {
		if _, ok := vDisk[dir]; !ok {
			return
		}
		vDisk[target] = &vEnt{exists: true, old: true}
	}
	c := vWriterCache("/vfs/etc", dir)
	vFaulted = false
	err := c.WriteSpec(vValidRaw("vendor.com/class"), names[k])
	vObserve()
	if !vFaulted {
		vassert("write-succeeds-when-nothing-fails", err == nil)
	}
	// at every instant (after every file-system operation, i.e. at every crash point and for every concurrent reader)
	// a Spec-named file held either the complete previous or the complete new content
	vassert("never-partial-under-a-spec-name", vInvOK)
	e, ok := vDisk[target]
	exists := ok && e.exists
	if err == nil {
		vreach("write-ok")
		vassert("published-complete-new-content", exists && !e.old && vComplete(e))
	} else {
		vreach("write-failed")
		// a failed write leaves the previous file (if any) or nothing - never new partial data
		vassert("failed-write-keeps-previous-state", exists == hadPrev && (!exists || e.old || vComplete(e)))
	}
	// nothing temporary is loadable as a Spec
	for p, x := range vDisk {
		if x.exists && !x.isDir && p != target {
			vassert("leftovers-are-not-spec-named", !vSpecExt(p))
		}
	}
}

// ---- C16

const vVendorRe16 = `^[A-Za-z]([A-Za-z0-9_.-]*[A-Za-z0-9])?$`

func H_C16_names() {
	vendor := nondetString("vendor", vparam("V"))
	class := nondetString("class", vparam("V"))
	vassume(vregex(vVendorRe16, vendor))
	vassume(vregex(vVendorRe16, class))
	id := nondetString("id", vparam("ID"))
	raw := &cdi.Spec{Kind: vendor + "/" + class}
	n1, err1 := GenerateNameForSpec(raw)
	n2, err2 := GenerateNameForTransientSpec(raw, id)
	vassert("names-generated-for-valid-kind", err1 == nil && err2 == nil)
	vreach("names")
	for _, n := range []string{n1, n2} {
		single := n != "" && n != "." && n != ".."
		for i := 0; i < len(n); i++ {
			if n[i] == '/' {
				single = false
			}
		}
		vassert("generated-name-is-a-single-path-component", single)
	}
	vassert("generated-names-are-the-documented-ones", n1 == GenerateSpecName(vendor, class) && n2 == GenerateTransientSpecName(vendor, class, id))
}

func H_C16_effects() {
	// the name: a generated one (transient id with separators and dots), as it is or with an extension appended by the caller
	vendor, class := "vendor.com", "class.json"
	if nondetBool("plain-class") {
		class = "class"
	}
	ids := []string{"id", "a/b", "../x", "..", "x.json", "y.yaml", ".", "a.b.", "", "c.JSON", "d.Yaml", "e.yml", "f.json.tmp"}
	name := GenerateTransientSpecName(vendor, class, ids[nondetChoice("id", len(ids))])
	if nondetBool("static") {
		name = GenerateSpecName(vendor, class)
	}
	switch nondetChoice("ext", 3) {
	case 1:
		name += ".json"
	case 2:
		name += ".yaml"
	}
	vDataMax = vparam("DATAMAX")
	ndirs := nondetLen("ndirs", 1, vparam("NDIRS"))
	dirs := []string{"/vfs/etc", "/vfs/var", "/vfs/run"}[:ndirs]
	last := dirs[ndirs-1]
	vResetDisk(last, nondetChoice("dir-exists", 2) == 1)
	// pre-existing content elsewhere
	vDisk["/vfs/etc/other.json"] = &vEnt{exists: true, old: true}
	wantBase := name
	if e := filepath.Ext(name); e != ".json" && e != ".yaml" {
		wantBase += ".yaml"
	}
	target := last + "/" + wantBase
	c := vWriterCache(dirs...)
	rawSpec := vValidRaw(vendor + "/" + class)
	if nondetBool("index-already-holds-this-spec") {
		// histories: an earlier write + refresh left an identical Spec for this path in the index; the file may be gone
		if old, oerr := newSpec(vValidRaw(vendor+"/"+class), target, ndirs-1); oerr == nil {
			c.specs[vendor] = []*Spec{old}
			for _, dv := range old.devices {
				c.devices[dv.GetQualifiedName()] = dv
			}
		}
	}
	vJSONCalls, vYAMLCalls = 0, 0
	vFaulted = false
	err := c.WriteSpec(rawSpec, name)
	if !vFaulted {
		// no operation failed: the write succeeds, the last directory being created if it was missing
		vassert("write-succeeds-when-nothing-fails", err == nil)
	}
	if err == nil {
		vreach("written")
		e, ok := vDisk[target]
		vassert("exactly-the-target-is-published", ok && e.exists && vComplete(e) && !e.old)
		vassert("encoding-follows-the-extension", (filepath.Ext(target) == ".json") == (vJSONCalls == 1 && vYAMLCalls == 0) && (filepath.Ext(target) != ".json") == (vYAMLCalls == 1 && vJSONCalls == 0))
	}
	// every path touched lies directly in the last directory and is the target or a temporary (non-Spec) name
	for _, p := range vTouched {
		vassert("touches-only-files-directly-in-the-last-directory", filepath.Dir(p) == last)
		vassert("touches-only-target-or-temporary", p == target || !vSpecExt(p))
	}
	for _, p := range vMkdirs {
		vassert("creates-only-the-last-directory", p == last)
	}
	o := vDisk["/vfs/etc/other.json"]
	vassert("other-entries-untouched", o != nil && o.exists && o.old)
	vassert("never-partial-under-a-spec-name", vInvOK)
	// symmetry: removing by the same name deletes exactly that file; removing again succeeds
	if err == nil {
		vTouched = nil
		rerr := c.RemoveSpec(name)
		if rerr == nil {
			vreach("removed")
			_, still := vDisk[target]
			vassert("remove-deletes-the-written-file", !still)
			for _, p := range vTouched {
				vassert("remove-touches-only-the-target", p == target)
			}
			vTouched = nil
			vassert("removing-a-missing-file-succeeds", c.RemoveSpec(name) == nil || vRemoveFailedForOtherReason())
		}
	}
}

// Pre-existing content under the very name a Spec would get: a non-empty directory called like the Spec file. Removing
// the Spec by name deletes at most that one directory entry and nothing below or beside it (today: the removal fails
// with "directory not empty" and touches nothing).
func H_C16_remove_occupied() {
	vendor, class := "vendor.com", "class"
	name := GenerateTransientSpecName(vendor, class, "id")
	switch nondetChoice("ext", 3) {
	case 1:
		name += ".json"
	case 2:
		name += ".yaml"
	}
	wantBase := name
	if e := filepath.Ext(name); e != ".json" && e != ".yaml" {
		wantBase += ".yaml"
	}
	last := "/vfs/run"
	target := last + "/" + wantBase
	vResetDisk(last, true)
	occupied := nondetBool("non-empty")
	vDisk[target] = &vEnt{exists: true, isDir: true}
	if occupied {
		vDisk[target+"/keep.txt"] = &vEnt{exists: true, old: true}
	}
	vDisk[last+"/other.json"] = &vEnt{exists: true, old: true}
	c := vWriterCache("/vfs/etc", last)
	vFaulted = false
	rerr := c.RemoveSpec(name)
	vreach("remove-occupied-returned")
	for _, p := range vTouched {
		vassert("remove-touches-only-the-target", p == target)
	}
	if occupied {
		k := vDisk[target+"/keep.txt"]
		vassert("content-below-the-name-untouched", k != nil && k.exists && k.old)
		_, still := vDisk[target]
		vassert("occupied-name-is-not-reported-removed", !(rerr == nil && still))
	}
	o := vDisk[last+"/other.json"]
	vassert("other-entries-untouched", o != nil && o.exists && o.old)
}

// RemoveSpec of an absent file must succeed; the stub only fails with not-exist in that situation
func vRemoveFailedForOtherReason() bool { return false }
