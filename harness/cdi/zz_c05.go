package cdi

import (
	"strings"

	"tags.cncf.io/container-device-interface/internal/validation/k8s"
	"tags.cncf.io/container-device-interface/pkg/parser"
	cdi "tags.cncf.io/container-device-interface/specs-go"
)

// C05 — a Spec is admitted iff well-formed per SPEC.md; any single defect rejects it.
// Reference predicates are written from the statement / SPEC.md. Where the statement is silent the
// reference is three-valued (must accept / must reject / unconstrained).

func init() {
	vregister("H_C05_env", H_C05_env)
	vregister("H_C05_node", H_C05_node)
	vregister("H_C05_hook", H_C05_hook)
	vregister("H_C05_mount", H_C05_mount)
	vregister("H_C05_rdt", H_C05_rdt)
	vregister("H_C05_annotations", H_C05_annotations)
	vregister("H_C05_annotation_size", H_C05_annotation_size)
	vregister("H_C05_edits", H_C05_edits)
	vregister("H_C05_spec", H_C05_spec)
}

const (
	vVendorRe5 = `^[A-Za-z]([A-Za-z0-9_.-]*[A-Za-z0-9])?$`
	vDevNameRe = `^[A-Za-z0-9]([A-Za-z0-9_.:-]*[A-Za-z0-9])?$`
	// Kubernetes qualified name, case-insensitive as the CDI validation prescribes: [prefix/]name
	vK8sKeyRe = `^([A-Za-z0-9]([-A-Za-z0-9]*[A-Za-z0-9])?(\.[A-Za-z0-9]([-A-Za-z0-9]*[A-Za-z0-9])?)*/)?([A-Za-z0-9][-A-Za-z0-9_.]*)?[A-Za-z0-9]$`
)

// ---- leaf references

func vEnvOK(s string) bool {
	for i := 0; i < len(s); i++ {
		if s[i] == '=' {
			return i > 0
		}
	}
	return false
}

func vTypeOK(t string) bool { return t == "" || t == "b" || t == "c" || t == "u" || t == "p" }

// 1 = must accept, 0 = must reject, 2 = unconstrained (repeated letters: the statement says "within rwm")
func vPermsRef(p string) int {
	seen := [3]bool{}
	rep := false
	for i := 0; i < len(p); i++ {
		k := -1
		switch p[i] {
		case 'r':
			k = 0
		case 'w':
			k = 1
		case 'm':
			k = 2
		}
		if k < 0 {
			return 0
		}
		if seen[k] {
			rep = true
		}
		seen[k] = true
	}
	if rep {
		return 2
	}
	return 1
}

func vHookNameOK(n string) bool {
	return n == "prestart" || n == "createRuntime" || n == "createContainer" || n == "startContainer" || n == "poststart" || n == "poststop"
}

// legal file name: must reject ".", ".." and anything containing '/'; must accept short names without '/', NUL, newline
func vClosIDRef(s string) int {
	if s == "." || s == ".." || strings.Contains(s, "/") {
		return 0
	}
	if len(s) > 255 || strings.Contains(s, "\n") || strings.Contains(s, "\x00") {
		return 2
	}
	return 1
}

func vAnnKeyOK(k string) bool {
	if !vregex(vK8sKeyRe, k) {
		return false
	}
	// length limits of the grammar: name part <= 63, prefix <= 253
	i := strings.Index(k, "/")
	name := k
	if i >= 0 {
		if i > 253 {
			return false
		}
		name = k[i+1:]
	}
	return len(name) <= 63
}

func vIsASCII(s string) {
	for i := 0; i < len(s); i++ {
		vassume(s[i] < 0x80)
	}
}

// ---- leaves

func H_C05_env() {
	s := nondetString("s", vparam("L"))
	ok := ValidateEnv([]string{"A=b", s}) == nil
	vassert("env-iff-name-assignment", ok == vEnvOK(s))
	if ok {
		vreach("env-ok")
	} else {
		vreach("env-bad")
	}
}

func H_C05_node() {
	dn := &cdi.DeviceNode{Path: nondetStringU("path", 2), Type: nondetStringU("type", 2), Permissions: nondetString("perms", vparam("P"))}
	ok := (&DeviceNode{dn}).Validate() == nil
	pr := vPermsRef(dn.Permissions)
	base := dn.Path != "" && vTypeOK(dn.Type)
	if !base || pr == 0 {
		vreach("node-bad")
		vassert("node-defect-rejected", !ok)
	} else if pr == 1 {
		vreach("node-ok")
		vassert("node-wellformed-accepted", ok)
	}
}

func H_C05_hook() {
	h := &cdi.Hook{HookName: nondetString("name", vparam("H")), Path: nondetStringU("path", 1)}
	if nondetBool("hasenv") {
		h.Env = []string{nondetStringU("env", 3)}
	}
	ok := (&Hook{h}).Validate() == nil
	want := vHookNameOK(h.HookName) && h.Path != "" && (len(h.Env) == 0 || vEnvOK(h.Env[0]))
	vassert("hook-iff-wellformed", ok == want)
	if ok {
		vreach("hook-ok")
	} else {
		vreach("hook-bad")
	}
}

func H_C05_mount() {
	m := &cdi.Mount{HostPath: nondetStringU("host", 2), ContainerPath: nondetStringU("ctr", 2)}
	ok := (&Mount{m}).Validate() == nil
	vassert("mount-iff-both-paths", ok == (m.HostPath != "" && m.ContainerPath != ""))
	if ok {
		vreach("mount-ok")
	} else {
		vreach("mount-bad")
	}
}

func H_C05_rdt() {
	r := &cdi.IntelRdt{ClosID: nondetString("closid", vparam("R"))}
	ok := (&IntelRdt{r}).Validate() == nil
	switch vClosIDRef(r.ClosID) {
	case 0:
		vreach("rdt-bad")
		vassert("rdt-illegal-filename-rejected", !ok)
	case 1:
		vreach("rdt-ok")
		vassert("rdt-legal-filename-accepted", ok)
	}
}

func H_C05_annotations() {
	k := nondetString("key", vparam("A"))
	vIsASCII(k)
	dev := &Device{Device: &cdi.Device{Name: "d", Annotations: map[string]string{k: "v"}, ContainerEdits: cdi.ContainerEdits{Env: []string{"A=b"}}}}
	ok := dev.validate() == nil
	vassert("annotation-key-iff-qualified-name", ok == vAnnKeyOK(k))
	vassert("annotation-key-vendored-k8s-agrees", (len(k8s.IsQualifiedName(strings.ToLower(k))) == 0) == vAnnKeyOK(k))
	if ok {
		vreach("ann-ok")
	} else {
		vreach("ann-bad")
	}
}

// long keys: the 63 / 253 character limits; total size limit of 256 KiB
func H_C05_annotation_size() {
	which := nondetChoice("which", 6)
	var k, v string
	want := true
	switch which {
	case 0:
		k = strings.Repeat("a", 63)
	case 1:
		k, want = strings.Repeat("a", 64), false
	case 2:
		k = strings.Repeat("a", 253) + "/n"
	case 3:
		k, want = strings.Repeat("a", 254)+"/n", false
	case 4:
		k, v = "k", strings.Repeat("x", 256*1024-1)
	case 5:
		k, v, want = "k", strings.Repeat("x", 256*1024), false
	}
	dev := &Device{Device: &cdi.Device{Name: "d", Annotations: map[string]string{k: v}, ContainerEdits: cdi.ContainerEdits{Env: []string{"A=b"}}}}
	ok := dev.validate() == nil
	vreach("ann-size")
	vassert("annotation-length-limits", ok == want)
}

// ---- edits: lists with symbolic lengths and nil-able entries

type vEditsModel struct {
	e   cdi.ContainerEdits
	ok  bool // every element passes its rule (no null entries)
	emp bool // no content at all
}

func vDrawEdits(p string) *vEditsModel {
	m := &vEditsModel{ok: true}
	env := []string{nondetStringU(p+"env", 3)}
	m.e.Env = env[:nondetIntRange(p+"nenv", 0, 1)]
	if len(m.e.Env) > 0 && !vEnvOK(m.e.Env[0]) {
		m.ok = false
	}
	// device node: absent, null entry, or a node
	switch nondetIntRange(p+"node", 0, 2) {
	case 1:
		m.e.DeviceNodes = []*cdi.DeviceNode{nil}
		m.ok = false
	case 2:
		dn := &cdi.DeviceNode{Path: nondetStringU(p+"npath", 1), Type: nondetStringU(p+"ntype", 1)}
		m.e.DeviceNodes = []*cdi.DeviceNode{dn}
		if dn.Path == "" || !vTypeOK(dn.Type) {
			m.ok = false
		}
	}
	switch nondetIntRange(p+"hook", 0, 2) {
	case 1:
		m.e.Hooks = []*cdi.Hook{nil}
		m.ok = false
	case 2:
		names := []string{"prestart", "poststop", "createRuntime", "prestop", ""}
		h := &cdi.Hook{HookName: names[nondetIntRange(p+"hname", 0, 4)], Path: nondetStringU(p+"hpath", 1)}
		m.e.Hooks = []*cdi.Hook{h}
		if !vHookNameOK(h.HookName) || h.Path == "" {
			m.ok = false
		}
	}
	switch nondetIntRange(p+"mount", 0, 2) {
	case 1:
		m.e.Mounts = []*cdi.Mount{nil}
		m.ok = false
	case 2:
		mt := &cdi.Mount{HostPath: nondetStringU(p+"mhost", 1), ContainerPath: nondetStringU(p+"mctr", 1)}
		m.e.Mounts = []*cdi.Mount{mt}
		if mt.HostPath == "" || mt.ContainerPath == "" {
			m.ok = false
		}
	}
	if nondetBool(p + "hasrdt") {
		ids := []string{"ok", ".", "..", "a/b", ""}
		r := &cdi.IntelRdt{ClosID: ids[nondetIntRange(p+"closid", 0, 4)]}
		m.e.IntelRdt = r
		if vClosIDRef(r.ClosID) == 0 {
			m.ok = false
		}
	}
	gids := []uint32{nondetU32(p + "gid")}
	m.e.AdditionalGIDs = gids[:nondetIntRange(p+"ngids", 0, 1)]
	m.emp = len(m.e.Env) == 0 && len(m.e.DeviceNodes) == 0 && len(m.e.Hooks) == 0 && len(m.e.Mounts) == 0 && m.e.IntelRdt == nil && len(m.e.AdditionalGIDs) == 0
	return m
}

func H_C05_edits() {
	m := vDrawEdits("e.")
	ok := (&ContainerEdits{&m.e}).Validate() == nil
	vassert("edits-valid-iff-every-element-wellformed", ok == m.ok)
	if ok {
		vreach("edits-ok")
	} else {
		vreach("edits-bad")
	}
	// a device needs non-empty, well-formed edits
	d := &Device{Device: &cdi.Device{Name: "dev0", ContainerEdits: m.e}}
	dok := d.validate() == nil
	vassert("device-needs-nonempty-wellformed-edits", dok == (m.ok && !m.emp))
	if m.emp {
		vreach("edits-empty")
	}
}

// ---- whole Spec

func vLevelOfEdits(e *cdi.ContainerEdits) int {
	lvl := 2
	for i := 0; i < len(e.Mounts); i++ {
		if e.Mounts[i] != nil && e.Mounts[i].Type != "" && lvl < 3 {
			lvl = 3
		}
	}
	for i := 0; i < len(e.DeviceNodes); i++ {
		if e.DeviceNodes[i] != nil && e.DeviceNodes[i].HostPath != "" && lvl < 4 {
			lvl = 4
		}
	}
	if e.IntelRdt != nil || len(e.AdditionalGIDs) > 0 {
		lvl = 6
	}
	return lvl
}

func H_C05_spec() {
	versions := []string{"0.1.0", "0.2.0", "0.3.0", "0.4.0", "0.5.0", "0.6.0", "0.7.0", "0.8.0", "1.0.0", "", "0.9.0", "1.0"}
	vi := nondetChoice("version", len(versions))
	raw := &cdi.Spec{Version: versions[vi]}
	raw.Kind = nondetStringU("kind", vparam("KIND"))
	kindOK := false
	dotted := false
	if i := strings.Index(raw.Kind, "/"); i >= 0 {
		kindOK = vregex(vVendorRe5, raw.Kind[:i]) && vregex(vVendorRe5, raw.Kind[i+1:])
		dotted = strings.Contains(raw.Kind[i+1:], ".")
	}
	annOK := true
	lvl := 2
	if nondetBool("s.hasann") {
		k := nondetStringU("s.annkey", 3)
		vIsASCII(k)
		raw.Annotations = map[string]string{k: "v"}
		annOK = vAnnKeyOK(k)
		lvl = 5
	}
	if dotted && lvl < 5 {
		lvl = 5
	}
	se := vDrawEdits("s.")
	raw.ContainerEdits = se.e
	if l := vLevelOfEdits(&se.e); l > lvl {
		lvl = l
	}
	n := nondetLen("ndev", 0, vparam("NDEV"))
	devsOK := n > 0
	for i := 0; i < n; i++ {
		p := "d" + string(rune('0'+i)) + "."
		name := nondetStringU(p+"name", 2)
		de := vDrawEdits(p)
		d := cdi.Device{Name: name, ContainerEdits: de.e}
		if !vregex(vDevNameRe, name) || !de.ok || de.emp {
			devsOK = false
		}
		if len(name) > 0 && name[0] >= '0' && name[0] <= '9' && lvl < 4 {
			lvl = 4
		}
		if nondetBool(p + "hasann") {
			k := nondetStringU(p+"annkey", 3)
			vIsASCII(k)
			d.Annotations = map[string]string{k: "v"}
			if !vAnnKeyOK(k) {
				devsOK = false
			}
			if lvl < 5 {
				lvl = 5
			}
		}
		if l := vLevelOfEdits(&de.e); l > lvl {
			lvl = l
		}
		for j := 0; j < i; j++ {
			if raw.Devices[j].Name == name {
				devsOK = false // unique device names
			}
		}
		raw.Devices = append(raw.Devices, d)
	}
	versionOK := vi <= 8 && vi >= lvl
	want := versionOK && kindOK && annOK && se.ok && devsOK
	spec, err := newSpec(raw, "/etc/cdi/x.json", 0)
	vassert("spec-admitted-iff-wellformed", (err == nil) == want)
	if err == nil {
		vreach("spec-admitted")
		vassert("admitted-spec-returned", spec != nil && len(spec.devices) == n)
	} else {
		vreach("spec-rejected")
		vassert("rejected-spec-nil", spec == nil)
	}
	_ = parser.IsLetter
}
