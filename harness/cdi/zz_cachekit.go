package cdi

// Shared builders: a directly constructed manual-refresh cache and initial OCI specs.

import (
	"os"

	oci "github.com/opencontainers/runtime-spec/specs-go"
	"golang.org/x/sys/unix"
	cdi "tags.cncf.io/container-device-interface/specs-go"
)

// ---- OCI spec shapes: plain values drawn once, from which identical fresh OCI specs can be built

type vOCIShape struct {
	hasProcess, hasLinux, hasRes, hasHooks, hasRdt bool
	uid, gid                                        uint32
	env                                             []string
	gids                                            []uint32
	mountDst                                        []string
	devPath                                         []string
	hookPath                                        string
	closID                                          string
}

func vDrawOCI(p string, nenv, nmount, ndev int) *vOCIShape {
	s := &vOCIShape{}
	s.hasProcess = nondetBool(p + "hasProcess")
	s.hasLinux = nondetBool(p + "hasLinux")
	s.hasRes = nondetBool(p + "hasRes")
	s.hasHooks = nondetBool(p + "hasHooks")
	s.hasRdt = nondetBool(p + "hasRdt")
	s.uid = nondetU32(p + "uid")
	s.gid = nondetU32(p + "gid")
	for i := 0; i < nenv; i++ {
		s.env = append(s.env, nondetStringN(p+"envk"+string(rune('0'+i)), 1)+"="+nondetStringN(p+"envv"+string(rune('0'+i)), 1))
	}
	s.gids = []uint32{nondetU32(p + "agid0")}
	for i := 0; i < nmount; i++ {
		s.mountDst = append(s.mountDst, "/m"+string(rune('0'+i)))
	}
	for i := 0; i < ndev; i++ {
		s.devPath = append(s.devPath, "/dev/o"+string(rune('0'+i)))
	}
	s.hookPath = "/bin/oldhook"
	s.closID = "old"
	return s
}

func vMkOCI(s *vOCIShape) *oci.Spec {
	o := &oci.Spec{Version: "1.0.2", Hostname: "host"}
	o.Root = &oci.Root{Path: "rootfs"}
	o.Annotations = map[string]string{"a": "b"}
	if s.hasProcess {
		o.Process = &oci.Process{Cwd: "/", Args: []string{"sh"}}
		o.Process.User.UID = s.uid
		o.Process.User.GID = s.gid
		o.Process.Env = append([]string(nil), s.env...)
		o.Process.User.AdditionalGids = append([]uint32(nil), s.gids...)
	}
	for _, d := range s.mountDst {
		o.Mounts = append(o.Mounts, oci.Mount{Destination: d, Source: "/src" + d, Type: "bind"})
	}
	if s.hasLinux {
		o.Linux = &oci.Linux{CgroupsPath: "/cg"}
		for _, p := range s.devPath {
			o.Linux.Devices = append(o.Linux.Devices, oci.LinuxDevice{Path: p, Type: "c", Major: 9, Minor: 9})
		}
		if s.hasRes {
			o.Linux.Resources = &oci.LinuxResources{}
			o.Linux.Resources.Devices = []oci.LinuxDeviceCgroup{{Allow: false, Access: "rwm"}}
		}
		if s.hasRdt {
			o.Linux.IntelRdt = &oci.LinuxIntelRdt{ClosID: s.closID}
		}
	}
	if s.hasHooks {
		o.Hooks = &oci.Hooks{Prestart: []oci.Hook{{Path: s.hookPath}}, Poststop: []oci.Hook{{Path: s.hookPath}}}
	}
	return o
}

// ---- comparing OCI specs section by section

func vEqStrs(a, b []string) bool {
	if len(a) != len(b) {
		return false
	}
	for i := range a {
		if a[i] != b[i] {
			return false
		}
	}
	return true
}

func vEqU32p(a, b *uint32) bool {
	if a == nil || b == nil {
		return a == nil && b == nil
	}
	return *a == *b
}

func vEqModep(a, b *os.FileMode) bool {
	if a == nil || b == nil {
		return a == nil && b == nil
	}
	return *a == *b
}

func vEqI64p(a, b *int64) bool {
	if a == nil || b == nil {
		return a == nil && b == nil
	}
	return *a == *b
}

func vEqHooks(a, b []oci.Hook) bool {
	if len(a) != len(b) {
		return false
	}
	for i := range a {
		if a[i].Path != b[i].Path || !vEqStrs(a[i].Args, b[i].Args) || !vEqStrs(a[i].Env, b[i].Env) {
			return false
		}
		if (a[i].Timeout == nil) != (b[i].Timeout == nil) || (a[i].Timeout != nil && *a[i].Timeout != *b[i].Timeout) {
			return false
		}
	}
	return true
}

func vEqMounts(a, b []oci.Mount) bool {
	if len(a) != len(b) {
		return false
	}
	for i := range a {
		if a[i].Destination != b[i].Destination || a[i].Source != b[i].Source || a[i].Type != b[i].Type || !vEqStrs(a[i].Options, b[i].Options) {
			return false
		}
	}
	return true
}

func vEqProcess(a, b *oci.Process) bool {
	if a == nil || b == nil {
		return a == nil && b == nil
	}
	if !vEqStrs(a.Env, b.Env) || a.User.UID != b.User.UID || a.User.GID != b.User.GID || a.Cwd != b.Cwd || !vEqStrs(a.Args, b.Args) {
		return false
	}
	if len(a.User.AdditionalGids) != len(b.User.AdditionalGids) {
		return false
	}
	for i := range a.User.AdditionalGids {
		if a.User.AdditionalGids[i] != b.User.AdditionalGids[i] {
			return false
		}
	}
	return true
}

func vEqLinux(a, b *oci.Linux) bool {
	if a == nil || b == nil {
		return a == nil && b == nil
	}
	if a.CgroupsPath != b.CgroupsPath || len(a.Devices) != len(b.Devices) {
		return false
	}
	for i := range a.Devices {
		x, y := a.Devices[i], b.Devices[i]
		if x.Path != y.Path || x.Type != y.Type || x.Major != y.Major || x.Minor != y.Minor || !vEqU32p(x.UID, y.UID) || !vEqU32p(x.GID, y.GID) || !vEqModep(x.FileMode, y.FileMode) {
			return false
		}
	}
	if (a.Resources == nil) != (b.Resources == nil) {
		return false
	}
	if a.Resources != nil {
		if len(a.Resources.Devices) != len(b.Resources.Devices) {
			return false
		}
		for i := range a.Resources.Devices {
			x, y := a.Resources.Devices[i], b.Resources.Devices[i]
			if x.Allow != y.Allow || x.Type != y.Type || x.Access != y.Access || !vEqI64p(x.Major, y.Major) || !vEqI64p(x.Minor, y.Minor) {
				return false
			}
		}
	}
	if (a.IntelRdt == nil) != (b.IntelRdt == nil) {
		return false
	}
	if a.IntelRdt != nil {
		x, y := a.IntelRdt, b.IntelRdt
		if x.ClosID != y.ClosID || x.L3CacheSchema != y.L3CacheSchema || x.MemBwSchema != y.MemBwSchema || x.EnableCMT != y.EnableCMT || x.EnableMBM != y.EnableMBM {
			return false
		}
	}
	return true
}

func vEqOCIHooks(a, b *oci.Hooks) bool {
	if a == nil || b == nil {
		return a == nil && b == nil
	}
	return vEqHooks(a.Prestart, b.Prestart) && vEqHooks(a.CreateRuntime, b.CreateRuntime) && vEqHooks(a.CreateContainer, b.CreateContainer) &&
		vEqHooks(a.StartContainer, b.StartContainer) && vEqHooks(a.Poststart, b.Poststart) && vEqHooks(a.Poststop, b.Poststop)
}

func vEqOCI(a, b *oci.Spec) bool {
	return a.Version == b.Version && a.Hostname == b.Hostname && vEqProcess(a.Process, b.Process) && vEqMounts(a.Mounts, b.Mounts) &&
		vEqLinux(a.Linux, b.Linux) && vEqOCIHooks(a.Hooks, b.Hooks)
}

// ---- a directly constructed cache

type vDevModel struct {
	key  string // qualified name in the device index ("" = not indexed: shadowed or conflict-removed)
	spec int
	name string
}

// edits with distinguishable content; every list has one element, names/values are symbolic single bytes
func vMkEdits(p string, withNode bool) cdi.ContainerEdits {
	e := cdi.ContainerEdits{}
	e.Env = []string{nondetStringN(p+"envk", 1) + "=" + nondetStringN(p+"envv", 1)}
	hn := []string{"prestart", "createRuntime", "createContainer", "startContainer", "poststart", "poststop"}
	e.Hooks = []*cdi.Hook{{HookName: hn[nondetIntRange(p+"hook", 0, 5)], Path: "/bin/" + p}}
	e.AdditionalGIDs = []uint32{nondetU32(p + "gid")}
	if withNode {
		e.DeviceNodes = []*cdi.DeviceNode{{Path: "/dev/" + nondetStringN(p+"node", 1), Type: "c", Major: 7, Minor: int64(nondetU8(p + "minor")), Permissions: "rw"}}
		e.Mounts = []*cdi.Mount{{HostPath: "/h/" + p, ContainerPath: "/m" + nondetStringN(p+"mnt", 1)}}
	}
	if nondetBool(p + "rdt") {
		e.IntelRdt = &cdi.IntelRdt{ClosID: p}
	}
	return e
}

// pristine copies of every edit holder, taken when the cache is constructed: [spec][0]=spec-level, [spec][1+j]=device j
var vPristineEdits [][]*cdi.ContainerEdits

func vCopyEdits(e *cdi.ContainerEdits) *cdi.ContainerEdits {
	n := &cdi.ContainerEdits{}
	n.Env = append([]string(nil), e.Env...)
	for _, d := range e.DeviceNodes {
		x := *d
		n.DeviceNodes = append(n.DeviceNodes, &x)
	}
	for _, h := range e.Hooks {
		x := *h
		n.Hooks = append(n.Hooks, &x)
	}
	for _, m := range e.Mounts {
		x := *m
		n.Mounts = append(n.Mounts, &x)
	}
	if e.IntelRdt != nil {
		x := *e.IntelRdt
		n.IntelRdt = &x
	}
	n.AdditionalGIDs = append([]uint32(nil), e.AdditionalGIDs...)
	return n
}

func vPristine(spec, dev int) *cdi.ContainerEdits { return vPristineEdits[spec][dev+1] }

// vMkCache builds a manual-refresh cache holding nspecs Spec files with 2 devices each (all indexed) plus one Spec
// file that is loaded but whose device is not in the device index (shadowed). Returns the cache and the index keys.
func vMkCache(nspecs int, withNodes bool) (*Cache, []string) {
	c := &Cache{autoRefresh: false, watch: &watch{}}
	c.specDirs = []string{"/etc/cdi", "/var/run/cdi"}
	c.specs = map[string][]*Spec{}
	c.devices = map[string]*Device{}
	c.errors = map[string][]error{}
	c.dirErrors = map[string]error{}
	var keys []string
	vPristineEdits = nil
	for i := 0; i <= nspecs; i++ {
		sp := "s" + string(rune('0'+i))
		vendor := "v" + string(rune('0'+i))
		raw := &cdi.Spec{Version: "0.7.0", Kind: vendor + "/c"}
		raw.ContainerEdits = vMkEdits(sp+".", false)
		s := &Spec{Spec: raw, vendor: vendor, class: "c", path: "/etc/cdi/" + sp + ".json", priority: 0, devices: map[string]*Device{}}
		for j := 0; j < 2; j++ {
			name := string(rune('a' + j))
			raw.Devices = append(raw.Devices, cdi.Device{Name: name, ContainerEdits: vMkEdits(sp+"."+name+".", withNodes && j == 0)})
		}
		for j := range raw.Devices {
			d := &Device{Device: &raw.Devices[j], spec: s}
			s.devices[d.Name] = d
			if i < nspecs {
				k := vendor + "/c=" + d.Name
				c.devices[k] = d
				keys = append(keys, k)
			}
		}
		c.specs[vendor] = append(c.specs[vendor], s)
		pr := []*cdi.ContainerEdits{vCopyEdits(&raw.ContainerEdits)}
		for j := range raw.Devices {
			pr = append(pr, vCopyEdits(&raw.Devices[j].ContainerEdits))
		}
		vPristineEdits = append(vPristineEdits, pr)
	}
	return c, keys
}

// ---- host stat stub (the kernel's answer for a device node is arbitrary)

var vLstatCalls int

func stubLstat(path string, st *unix.Stat_t) error {
	vLstatCalls++
	if nondetBool("lstat.fail") {
		return vPathErr("lstat", os.ErrNotExist)
	}
	st.Mode = nondetU32("lstat.mode")
	st.Rdev = nondetU64("lstat.rdev")
	return nil
}
