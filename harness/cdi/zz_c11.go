package cdi

import (
	"path/filepath"
	"sync"

	"github.com/fsnotify/fsnotify"
)

// C11 — with auto-refresh the cache converges by itself.  Decided through an event-coverage reduction:
//  (1) every operation that changes the set or content of Spec files directly in a watched directory produces at
//      least one event that survives the repository's filter and triggers a refresh (H_C11_filter);
//  (2) directories appearing/disappearing are re-armed and trigger a refresh (H_C11_dirs).
// The kernel/fsnotify translation (operation -> events) is the stated environment table below.

func init() {
	vregister("H_C11_filter", H_C11_filter)
	vregister("H_C11_dirs", H_C11_dirs)
}

const (
	opCreateWrite = iota // new file created and written: IN_CREATE, IN_MODIFY
	opCreateEmpty        // new empty file: IN_CREATE
	opWrite              // existing file rewritten / truncated: IN_MODIFY
	opRenameInside       // renamed inside the directory: IN_MOVED_FROM old, IN_MOVED_TO new
	opMoveIn             // moved in from elsewhere: IN_MOVED_TO
	opMoveOut            // renamed away: IN_MOVED_FROM
	opUnlink             // removed: IN_DELETE
	opHardLinkIn         // hard link created in the directory: IN_CREATE
	opChmod              // attributes only: IN_ATTRIB (no content change)
	opNumOps
)

// fsnotify v1.5.1 (inotify.go newEvent): IN_CREATE|IN_MOVED_TO -> Create, IN_DELETE|IN_DELETE_SELF -> Remove,
// IN_MODIFY -> Write, IN_MOVED_FROM|IN_MOVE_SELF -> Rename, IN_ATTRIB -> Chmod
func vEventsFor(op int, dir, name, name2 string) []fsnotify.Event {
	p, p2 := filepath.Join(dir, name), filepath.Join(dir, name2)
	switch op {
	case opCreateWrite:
		return []fsnotify.Event{{Name: p, Op: fsnotify.Create}, {Name: p, Op: fsnotify.Write}}
	case opCreateEmpty, opMoveIn, opHardLinkIn:
		return []fsnotify.Event{{Name: p, Op: fsnotify.Create}}
	case opWrite:
		return []fsnotify.Event{{Name: p, Op: fsnotify.Write}}
	case opRenameInside:
		return []fsnotify.Event{{Name: p, Op: fsnotify.Rename}, {Name: p2, Op: fsnotify.Create}}
	case opMoveOut:
		return []fsnotify.Event{{Name: p, Op: fsnotify.Rename}}
	case opUnlink:
		return []fsnotify.Event{{Name: p, Op: fsnotify.Remove}}
	case opChmod:
		return []fsnotify.Event{{Name: p, Op: fsnotify.Chmod}}
	}
	return nil
}

func vIsSpecName(n string) bool {
	e := filepath.Ext(n)
	return e == ".json" || e == ".yaml"
}

func H_C11_filter() {
	dir := "/vfs/d0"
	op := nondetChoice("op", opNumOps)
	exts := []string{".json", ".yaml", ".yml", ".txt", "", ".json.tmp"}
	name := "f" + nondetStringN("n", 1) + exts[nondetChoice("ext", len(exts))]
	name2 := "g" + exts[nondetChoice("ext2", len(exts))]
	for i := 0; i < len(name); i++ {
		vassume(name[i] != '/' && name[i] != 0)
	}
	evs := vEventsFor(op, dir, name, name2)
	// the directory after the operation, for code that looks at the file an event names: the directory exists, every name in it
	// is a regular file whose modification time is long past (a file moved or linked in keeps the mtime of its content), the
	// name removed or renamed away is gone; the clock (time.Now) runs far ahead of those file times
	vfs = &vFS{root: "/vfs", dirs: []*vDir{{path: dir}}}
	vGonePath = ""
	switch op {
	case opMoveOut, opUnlink, opRenameInside:
		vGonePath = dir + "/" + name
	}
	defer func() { vGonePath = "" }()
	fsw := &fsnotify.Watcher{Events: make(chan fsnotify.Event, 8), Errors: make(chan error, 1)}
	for _, e := range evs {
		fsw.Events <- e
	}
	close(fsw.Events)
	if nondetChoice("watcher-error-pending", 2) == 1 {
		// an error reported by the watcher (e.g. an event queue overflow) must not end the event loop; the engine takes the
		// error before the pending events (natively Go's select picks either)
		fsw.Errors <- vNewErr("fsnotify: queue or buffer overflow")
		vselectOrder(1)
		defer vselectOrder(0)
	}
	refreshes := 0
	var mu sync.Mutex
	w := &watch{watcher: fsw, tracked: map[string]bool{dir: true}}
	// the cache may have been reconfigured (watch stopped: nothing tracked any more) while events were still pending
	stopped := nondetBool("watch-stopped-meanwhile")
	if stopped {
		w.tracked = nil
	}
	vWatchers = map[*fsnotify.Watcher]*vWatcherState{fsw: {watches: map[string]bool{dir: true}}}
	// histories: the watcher may already have handled an earlier change (a Spec file rewritten in place) with the same
	// watch record; what it remembers from that must not make it overlook the operation under test
	before := 0
	if !stopped && nondetBool("earlier-change-handled") {
		fsw0 := &fsnotify.Watcher{Events: make(chan fsnotify.Event, 2), Errors: make(chan error, 1)}
		fsw0.Events <- fsnotify.Event{Name: dir + "/h.json", Op: fsnotify.Write}
		close(fsw0.Events)
		vWatchers[fsw0] = &vWatcherState{watches: map[string]bool{dir: true}}
		w.watch(fsw0, &mu, func() error { refreshes++; return nil }, map[string]error{})
		vassert("earlier-change-triggered-a-refresh", refreshes >= 1)
		before = refreshes
	}
	w.watch(fsw, &mu, func() error { refreshes++; return nil }, map[string]error{})
	refreshes -= before
	vreach("watcher-loop-returned")
	vassert("watcher-releases-the-lock", vMutexFree(&mu))
	// does the operation change the set or the content of Spec files directly inside the directory?
	relevant := false
	switch op {
	case opCreateWrite, opCreateEmpty, opWrite, opMoveIn, opMoveOut, opUnlink, opHardLinkIn:
		relevant = vIsSpecName(name)
	case opRenameInside:
		relevant = vIsSpecName(name) || vIsSpecName(name2)
	}
	if relevant && !stopped {
		vreach("relevant-change")
		vassert("a-change-to-the-spec-files-triggers-a-refresh", refreshes >= 1)
	}
}

// directories that were missing are re-armed when they appear; a removed directory is untracked, reported and refreshed
func H_C11_dirs() {
	vResetWatchers()
	m := vDrawFS(2, false, 1)
	defer vCleanupFS()
	d0, d1 := m.dirs[0].path, m.dirs[1].path
	fsw, _ := stubNewWatcher()
	t0, t1 := nondetBool("tracked0"), nondetBool("tracked1")
	// a tracked directory exists (it was watchable when it got tracked)
	vassume(!t0 || vDirExists(d0))
	vassume(!t1 || vDirExists(d1))
	w := &watch{watcher: fsw, tracked: map[string]bool{d0: t0, d1: t1}}
	dirErrors := map[string]error{}
	if !t0 {
		dirErrors[d0] = vNewErr("failed to monitor for changes")
	}
	if !t1 {
		dirErrors[d1] = vNewErr("failed to monitor for changes")
	}
	switch nondetChoice("step", 2) {
	case 0:
		// a query comes in: update() re-arms what has appeared
		upd := w.update(dirErrors)
		appeared := (!t0 && vDirExists(d0)) || (!t1 && vDirExists(d1))
		vreach("update")
		vassert("appeared-directory-forces-a-refresh", !appeared || upd)
		for i, d := range []string{d0, d1} {
			_ = i
			if vDirExists(d) {
				vassert("existing-directory-is-tracked", w.tracked[d])
				_, has := dirErrors[d]
				vassert("directory-error-cleared-when-watchable", !has)
			} else {
				vassert("missing-directory-stays-untracked", !w.tracked[d])
				_, has := dirErrors[d]
				vassert("missing-directory-is-reported", has)
			}
		}
	case 1:
		// the watcher goroutine sees a tracked directory being removed
		vassume(t0)
		// the directory is removed (the kernel drops its watch); it may already have been recreated when the
		// watcher goroutine gets to process the event
		vWatchers[fsw].watches[d0] = false
		early := nondetBool("recreated-before-the-event-is-processed")
		if !early {
			m.dirs[0].state = vDirMissing
		}
		fsw.Events <- fsnotify.Event{Name: d0, Op: fsnotify.Remove}
		close(fsw.Events)
		refreshes := 0
		var mu sync.Mutex
		w.watch(fsw, &mu, func() error { refreshes++; return nil }, dirErrors)
		vreach("dir-removed")
		vassert("removed-directory-triggers-a-refresh", refreshes >= 1)
		vassert("removed-directory-is-untracked", !w.tracked[d0])
		_, has := dirErrors[d0]
		vassert("removed-directory-is-reported", has)
		// when it is recreated the next query re-arms it
		m.dirs[0].state = vDirOK
		upd := w.update(dirErrors)
		vassert("recreated-directory-is-rearmed", (early || upd) && w.tracked[d0])
		vassert("recreated-directory-is-really-watched-again", vWatchers[fsw].watches[d0])
	}
}
