package cdi

// C04 — an unresolvable request leaves the OCI spec untouched and names every miss.

func init() {
	vregister("H_C04_unresolved", H_C04_unresolved)
	vregister("H_C04_nil", H_C04_nil)
	vregister("H_C04_many", H_C04_many)
}

// long requests: up to MANY names, each a resolvable key or one of two unknown names (repetitions included)
func H_C04_many() {
	c, keys := vMkCache(1, false)
	n := nondetLen("nreq", 4, vparam("MANY"))
	req := make([]string, n)
	var miss []string
	for i := range req {
		switch nondetChoice("r"+string(rune('a'+i)), 3) {
		case 0:
			req[i] = keys[0]
		case 1:
			req[i] = "v9/c=unknown"
			miss = append(miss, req[i])
		case 2:
			req[i] = "v8/c=other"
			miss = append(miss, req[i])
		}
	}
	if len(miss) == 0 {
		return // fully resolvable requests are C02's subject
	}
	shape := vDrawOCI("oci.", 1, 0, 0)
	o := vMkOCI(shape)
	tok := vfreeze(o)
	want := append([]string(nil), req...)
	unresolved, err := c.InjectDevices(o, req...)
	vassert("request-slice-not-modified", vEqStrs(req, want))
	vreach("many-misses")
	vassert("many-miss-error", err != nil)
	vassert("many-miss-names-exact", vEqStrs(unresolved, miss))
	vunchanged(tok, "many-miss-leaves-oci-untouched")
}

func vRequestMenu(keys []string, pos string) string {
	k := nondetChoice("req"+pos, len(keys)+4)
	switch {
	case k < len(keys):
		return keys[k]
	case k == len(keys):
		return "v9/c=a" // unknown vendor
	case k == len(keys)+1:
		return "not a device" // syntactically invalid
	case k == len(keys)+2:
		return ""
	}
	return nondetStringN("reqsym"+pos, 6) // arbitrary (may or may not hit a key)
}

func H_C04_unresolved() {
	c, keys := vMkCache(vparam("NSPECS"), true)
	n := nondetLen("nreq", 1, vparam("NREQ"))
	req := make([]string, n)
	for i := range req {
		req[i] = vRequestMenu(keys, string(rune('0'+i)))
	}
	shape := vDrawOCI("oci.", 1, 1, 1)
	o := vMkOCI(shape)
	tok := vfreeze(o)
	// expected misses, in request order, with repetitions
	var miss []string
	for _, r := range req {
		if _, ok := c.devices[r]; !ok {
			miss = append(miss, r)
		}
	}
	unresolved, err := c.InjectDevices(o, req...)
	if len(miss) == 0 {
		vreach("all-resolved")
		vassert("resolved-no-unresolved-list", len(unresolved) == 0)
		return
	}
	vreach("some-miss")
	vassert("miss-error", err != nil)
	vassert("miss-names-exact", vEqStrs(unresolved, miss))
	vunchanged(tok, "miss-leaves-oci-untouched")
}

func H_C04_nil() {
	c, keys := vMkCache(1, false)
	n := nondetLen("nreq", 0, 2)
	req := make([]string, n)
	for i := range req {
		req[i] = vRequestMenu(keys, string(rune('0'+i)))
	}
	unresolved, err := c.InjectDevices(nil, req...)
	vreach("nil-spec")
	vassert("nil-oci-error", err != nil)
	vassert("nil-oci-returns-request", vEqStrs(unresolved, req))
}
