package cdi

import (
	cdi "tags.cncf.io/container-device-interface/specs-go"
)

// C02 — injection is the ordered composition of the selected Specs' and devices' edits.
// Reference: the combined edit list built by the harness (plain concatenation in request order, Spec-level
// edits the first time a Spec file is met, IntelRdt: last one wins) applied once with the real Apply.

func init() {
	vregister("H_C02_compose", H_C02_compose)
	vregister("H_C02_history", H_C02_history)
}

// the same, after an earlier injection on the same cache: earlier requests leave no trace in later results
func H_C02_history() {
	c, keys := vMkCache(2, true)
	shape := vDrawOCI("oci.", 1, 1, 1)
	first := vMkOCI(shape)
	r0 := nondetChoice("first", len(keys))
	_, _ = c.InjectDevices(first, keys[r0])
	r1 := nondetChoice("second", len(keys))
	got := vMkOCI(shape)
	want := vMkOCI(shape)
	d := c.devices[keys[r1]]
	// reference built from pristine copies of what the Spec file says
	ref := &cdi.ContainerEdits{}
	vAppendEdits(ref, vPristine(r1/2, -1))
	vAppendEdits(ref, vPristine(r1/2, r1%2))
	_ = d
	werr := (&ContainerEdits{ref}).Apply(want)
	_, err := c.InjectDevices(got, keys[r1])
	vassert("history-same-outcome", (err == nil) == (werr == nil))
	if err == nil {
		vreach("second-injection")
		vassert("second-injection-equals-fresh-combined-application", vEqOCI(got, want))
	}
}

func vAppendEdits(dst *cdi.ContainerEdits, src *cdi.ContainerEdits) {
	for i := 0; i < len(src.Env); i++ {
		dst.Env = append(dst.Env, src.Env[i])
	}
	for i := 0; i < len(src.DeviceNodes); i++ {
		dst.DeviceNodes = append(dst.DeviceNodes, src.DeviceNodes[i])
	}
	for i := 0; i < len(src.Hooks); i++ {
		dst.Hooks = append(dst.Hooks, src.Hooks[i])
	}
	for i := 0; i < len(src.Mounts); i++ {
		dst.Mounts = append(dst.Mounts, src.Mounts[i])
	}
	if src.IntelRdt != nil {
		dst.IntelRdt = src.IntelRdt
	}
	for i := 0; i < len(src.AdditionalGIDs); i++ {
		dst.AdditionalGIDs = append(dst.AdditionalGIDs, src.AdditionalGIDs[i])
	}
}

func H_C02_compose() {
	vmapOrder(nondetChoice("maporder", 2)) // the result must not depend on map iteration order
	c, keys := vMkCache(vparam("NSPECS"), true)
	n := nondetLen("nreq", 1, vparam("NREQ"))
	idx := make([]int, n)
	req := make([]string, n)
	for i := range req {
		idx[i] = nondetChoice("req"+string(rune('0'+i)), len(keys))
		for j := 0; j < i; j++ {
			if idx[j] == idx[i] {
				return // distinct devices only
			}
		}
		req[i] = keys[idx[i]]
	}
	shape := vDrawOCI("oci.", 1, 1, 1)
	got := vMkOCI(shape)
	want := vMkOCI(shape)

	// reference combined edits
	ref := &cdi.ContainerEdits{}
	seen := map[int]bool{}
	for i := range req {
		d := c.devices[req[i]]
		sidx := idx[i] / 2
		if !seen[sidx] {
			seen[sidx] = true
			vAppendEdits(ref, &d.spec.Spec.ContainerEdits)
		}
		vAppendEdits(ref, &d.Device.ContainerEdits)
	}
	werr := (&ContainerEdits{ref}).Apply(want)

	unresolved, err := c.InjectDevices(got, req...)
	vassert("resolvable-request-has-no-misses", len(unresolved) == 0)
	vassert("same-outcome-as-combined-apply", (err == nil) == (werr == nil))
	if err == nil {
		vreach("injected")
		vassert("oci-equals-combined-edit-application", vEqOCI(got, want))
	}
}
