package cdi

// C20 — reconfiguring a cache equals creating a new one, with bounded resources.

import oci "github.com/opencontainers/runtime-spec/specs-go"

func init() { vregister("H_C20_reconfigure", H_C20_reconfigure) }

func vSameStrs(a, b []string) bool { return vEqStrs(a, b) }

func vSameKeysErr(a, b map[string][]error) bool {
	if len(a) != len(b) {
		return false
	}
	for k := range a {
		if _, ok := b[k]; !ok {
			return false
		}
	}
	return true
}

func vSameTracked(a, b map[string]bool) bool {
	if len(a) != len(b) {
		return false
	}
	for k, v := range a {
		w, ok := b[k]
		if !ok || w != v {
			return false
		}
	}
	return true
}

func vCompareCaches(c, f *Cache, tag string) {
	vassert(tag+"-same-directories", vSameStrs(c.GetSpecDirectories(), f.GetSpecDirectories()))
	vassert(tag+"-same-autorefresh", c.autoRefresh == f.autoRefresh)
	vassert(tag+"-same-devices", vSameStrs(c.ListDevices(), f.ListDevices()))
	vassert(tag+"-same-errors", vSameKeysErr(c.GetErrors(), f.GetErrors()))
	live := func(x *Cache) bool {
		return x.watch.watcher != nil && vWatchers[x.watch.watcher] != nil && !vWatchers[x.watch.watcher].closed
	}
	vassert(tag+"-same-watcher-liveness", live(c) == live(f))
	if c.autoRefresh {
		// with auto-refresh on, "no watcher" means every query refreshes: both caches must be in the same mode
		vassert(tag+"-same-refresh-mode", (c.watch.watcher == nil) == (f.watch.watcher == nil))
	}
	if live(c) && live(f) {
		cs, fs := vWatchers[c.watch.watcher], vWatchers[f.watch.watcher]
		vassert(tag+"-watching-exactly-the-final-directories", len(cs.watches) == len(fs.watches))
		for d := range fs.watches {
			vassert(tag+"-watching-exactly-the-final-directories", cs.watches[d])
		}
	}
	if c.autoRefresh && c.watch.watcher != nil && f.watch.watcher != nil {
		// what the watch record believes it monitors only matters while auto-refresh is active
		vassert(tag+"-same-tracked", vSameTracked(c.watch.tracked, f.watch.tracked))
	}
}

// vFirstQueryAgrees: the FIRST query on c after a directory change (the one that has to notice the change) is of kind q;
// its answer must be what the reference cache t (scanned just now) answers. The probe is a device of the toggled file.
func vFirstQueryAgrees(c, t *Cache, q int, m *vFS) bool {
	probe := "v0/c=" + m.dirs[0].files[0].devs[0]
	probe2 := "v0/c=" + m.dirs[0].files[1].devs[0]
	switch q {
	case 1:
		got := c.GetDevice(probe) != nil
		return got == (t.GetDevice(probe) != nil) && (c.GetDevice(probe2) != nil) == (t.GetDevice(probe2) != nil)
	case 2:
		return vSameStrs(c.ListVendors(), t.ListVendors()) && vSameStrs(c.ListDevices(), t.ListDevices())
	case 3:
		return vSameStrs(c.ListClasses(), t.ListClasses()) && vSameStrs(c.ListDevices(), t.ListDevices())
	case 4:
		return len(c.GetVendorSpecs("v0")) == len(t.GetVendorSpecs("v0")) && vSameStrs(c.ListDevices(), t.ListDevices())
	case 5:
		un1, err1 := c.InjectDevices(&oci.Spec{}, probe)
		un2, err2 := t.InjectDevices(&oci.Spec{}, probe)
		return (err1 == nil) == (err2 == nil) && len(un1) == len(un2) && vSameStrs(c.ListDevices(), t.ListDevices())
	case 6:
		// files in error: those of the reference; on top, a cache without a watcher may report its directories (watcher errors)
		ce, te := c.GetErrors(), t.GetErrors()
		ok := true
		for k := range te {
			if _, has := ce[k]; !has {
				ok = false
			}
		}
		for k := range ce {
			if _, has := te[k]; has {
				continue
			}
			isDir := false
			for _, d := range m.dirs {
				if d.path == k {
					isDir = true
				}
			}
			if !isDir {
				ok = false
			}
		}
		return ok && vSameStrs(c.ListDevices(), t.ListDevices())
	}
	return vSameStrs(c.ListDevices(), t.ListDevices())
}

func H_C20_reconfigure() {
	vResetWatchers()
	m := vSmallFS()
	defer vCleanupFS()
	d0, d1 := m.dirs[0].path, m.dirs[1].path
	menus := [][]string{nil, {d0}, {d0, d1}, {d1, d0}, {d1}}
	dirs := []string{d0}
	auto := nondetChoice("auto0", 2) == 1
	vShortage = nondetChoice("shortage0", 2) == 1
	c := newCache(WithSpecDirs(dirs...), WithAutoRefresh(auto))
	steps := nondetLen("steps", 1, vparam("STEPS"))
	for i := 0; i < steps; i++ {
		s := string(rune('1' + i))
		var opts []Option
		if k := nondetChoice("dirs"+s, len(menus)); k > 0 {
			dirs = menus[k]
			opts = append(opts, WithSpecDirs(dirs...))
		}
		if k := nondetChoice("auto"+s, 3); k > 0 {
			auto = k == 1
			opts = append(opts, WithAutoRefresh(auto))
		}
		if len(opts) == 0 {
			opts = append(opts, WithAutoRefresh(auto))
		}
		// directory changes between reconfigurations
		if nondetChoice("change"+s, 2) == 1 && m.dirs[0].state == vDirOK {
			vToggleFile(m.dirs[0], m.dirs[0].files[0])
		}
		vShortage = nondetChoice("shortage"+s, 2) == 1
		_ = c.Configure(opts...)
		vassert("at-most-one-live-watcher", vLiveWatchers <= 1)
		vassert("goroutines-bounded-by-watchers-created", vspawned() <= vMadeWatchers+steps+1)
	}
	live := vLiveWatchers
	// a new cache created with the final options, under the same conditions
	f := newCache(WithSpecDirs(dirs...), WithAutoRefresh(auto))
	vreach("reconfigured")
	vassert("live-watcher-iff-enabled-and-created", (live == 1) == (auto && !vShortage))
	vCompareCaches(c, f, "after-reconfiguration")
	if !vShortage {
		// an absolute reference for the error report (both caches above run the same watcher code): without a shortage
		// the files and directories in error are those a manually refreshed cache reports
		// (plus, with auto-refresh on, an entry for every configured directory that cannot be watched because it is missing)
		g := newCache(WithSpecDirs(dirs...), WithAutoRefresh(false))
		ce, ge := c.GetErrors(), g.GetErrors()
		for k := range ge {
			_, ok := ce[k]
			vassert("errors-of-a-manual-cache-are-reported", ok)
		}
		for k := range ce {
			if _, ok := ge[k]; ok {
				continue
			}
			unwatchable := false
			for _, d := range m.dirs {
				if d.path == k && d.state != vDirOK {
					unwatchable = true
				}
			}
			vassert("no-other-errors-than-unwatchable-directories", auto && unwatchable)
		}
	}
	// a later change of the directories: both caches must keep answering alike; with no watcher (shortage)
	// every query is answered from the current directory contents
	if m.dirs[0].state == vDirOK {
		vToggleFile(m.dirs[0], m.dirs[0].files[1])
	}
	vCompareCaches(c, f, "after-later-change")
	vassert("every-watcher-has-a-reader-goroutine", vspawned() >= vMadeWatchers)
	if auto && vShortage {
		vreach("shortage")
		g := newCache(WithSpecDirs(dirs...), WithAutoRefresh(false))
		vassert("without-watcher-queries-see-current-contents", vSameStrs(c.ListDevices(), g.ListDevices()))
		q := nondetChoice("query", 7) // which query is the first one after each later change: every query must notice it
		// the shortage ends; the directories keep changing: every query is still answered from the current contents
		// (a cache without a working event reader must not start trusting a watcher nobody reads)
		vShortage = false
		for round := 0; round < 2; round++ {
			if m.dirs[0].state == vDirOK {
				vToggleFile(m.dirs[0], m.dirs[0].files[round%2])
			}
			truth := newCache(WithSpecDirs(dirs...), WithAutoRefresh(false))
			vassert("after-the-shortage-queries-still-see-current-contents", vFirstQueryAgrees(c, truth, q, m))
			vassert("every-watcher-has-a-reader-goroutine", vspawned() >= vMadeWatchers)
		}
	}
}

// a small directory model: d0 present with a valid a.json and an absent b.yaml; d1 present or missing with a valid a.json
func vSmallFS() *vFS {
	m := &vFS{root: "/vfs"}
	for i := 0; i < 2; i++ {
		p := "d" + string(rune('0'+i)) + "."
		d := &vDir{path: m.root + "/d" + string(rune('0'+i))}
		if i == 1 {
			d.state = nondetChoice(p+"state", 2)
		}
		for j, name := range []string{"a.json", "b.yaml"} {
			f := &vFile{name: name, vendor: "v0"}
			if j == 0 && d.state == vDirOK {
				f.state = vFileValid
			}
			n := nondetStringN(p+name+".dev", 1)
			vassume(vAlnum(n[0]))
			f.devs = []string{n}
			d.files = append(d.files, f)
		}
		m.dirs = append(m.dirs, d)
	}
	if vnative() {
		vMaterialise(m)
	}
	vfs = m
	return m
}
