package cdi

import (
	"os"
	"path/filepath"
	"strings"

	oci "github.com/opencontainers/runtime-spec/specs-go"
	"golang.org/x/sys/unix"
	cdi "tags.cncf.io/container-device-interface/specs-go"
)

// C03 — container edits are applied to the OCI spec with the documented semantics (one harness per edit kind + frame).

func init() {
	vregister("H_C03_env", H_C03_env)
	vregister("H_C03_devices", H_C03_devices)
	vregister("H_C03_mounts", H_C03_mounts)
	vregister("H_C03_hooks", H_C03_hooks)
	vregister("H_C03_gids", H_C03_gids)
	vregister("H_C03_rdt", H_C03_rdt)
	vregister("H_C03_frame", H_C03_frame)
	vregister("H_C03_manymounts", H_C03_manymounts)
	vregister("H_C03_manymounts_conc", H_C03_manymounts_conc)
}

// more mounts than Go's sort treats with plain insertion sort (12): the depth of every mount is chosen by the solver,
// the result must be the stable depth order of (initial minus replaced) + edit
// the same with every depth a concrete case (one solver-free run per depth vector): reaches sort algorithms whose
// control flow depends on every comparison (quicksort variants), which the merged symbolic run cannot finish
func H_C03_manymounts_conc() { H_C03_manymounts() }

func H_C03_manymounts() {
	n := vparam("NMOUNTS")
	o := &oci.Spec{}
	type mnt struct{ dst, src string }
	var exp []mnt
	for i := 0; i < n; i++ {
		d := "/m" + string(rune('a'+i))
		deep := false
		if i < vparam("NCONC") {
			deep = nondetChoice("deep"+string(rune('a'+i)), 2) == 1 // a few concrete choices spread the work over the workers
		} else {
			deep = nondetBool("deep" + string(rune('a'+i)))
		}
		if deep {
			d += "/x"
		}
		o.Mounts = append(o.Mounts, oci.Mount{Destination: d, Source: "/s" + string(rune('a'+i))})
		exp = append(exp, mnt{d, "/s" + string(rune('a'+i))})
	}
	e := &cdi.ContainerEdits{Mounts: []*cdi.Mount{{HostPath: "/edit", ContainerPath: "/zz"}}}
	exp = append(exp, mnt{"/zz", "/edit"})
	for i := 1; i < len(exp); i++ {
		for j := i; j > 0 && vDepth(exp[j].dst) < vDepth(exp[j-1].dst); j-- {
			exp[j], exp[j-1] = exp[j-1], exp[j]
		}
	}
	err := vApply(e, o)
	vassert("manymounts-apply-ok", err == nil)
	vreach("manymounts")
	vassert("manymounts-count", len(o.Mounts) == len(exp))
	if len(o.Mounts) == len(exp) {
		for i := range exp {
			vassert("manymounts-stable-depth-order", o.Mounts[i].Destination == exp[i].dst && o.Mounts[i].Source == exp[i].src)
		}
	}
}

func vApply(e *cdi.ContainerEdits, o *oci.Spec) error { return (&ContainerEdits{e}).Apply(o) }

// ------------------------------------------------------------------ env

func H_C03_env() {
	shape := vDrawOCI("oci.", 0, 0, 0)
	ninit := nondetLen("ninit", 0, vparam("NINIT"))
	for i := 0; i < ninit; i++ {
		k := nondetStringN("ik"+string(rune('0'+i)), 1)
		vassume(k != "=")
		for j := 0; j < i; j++ {
			vassume(shape.env[j][:1] != k) // well-formed initial spec: unique variable names
		}
		shape.env = append(shape.env, k+"="+nondetStringN("iv"+string(rune('0'+i)), 1))
	}
	if ninit > 0 {
		shape.hasProcess = true
	}
	o := vMkOCI(shape)
	nedit := nondetLen("nedit", 1, vparam("NEDIT"))
	e := &cdi.ContainerEdits{}
	for i := 0; i < nedit; i++ {
		k := nondetStringN("ek"+string(rune('0'+i)), 1)
		vassume(k != "=")
		e.Env = append(e.Env, k+"="+nondetStringN("ev"+string(rune('0'+i)), 1))
	}
	err := vApply(e, o)
	vassert("env-apply-ok", err == nil)
	vassert("env-process-exists", o.Process != nil)
	if o.Process == nil {
		return
	}
	res := o.Process.Env
	vreach("env-applied")
	// every variable named by the edits has the value of its last edit (last entry with that name wins)
	for i := 0; i < nedit; i++ {
		name := e.Env[i][:1]
		lastEdit := e.Env[i]
		for j := i + 1; j < nedit; j++ {
			if e.Env[j][:1] == name {
				lastEdit = e.Env[j]
			}
		}
		lastRes := ""
		for j := 0; j < len(res); j++ {
			if len(res[j]) >= 2 && res[j][:1] == name && res[j][1] == '=' {
				lastRes = res[j]
			}
		}
		vassert("env-last-edit-wins", lastRes == lastEdit)
	}
	// variables not named by the edits keep their entry and their relative order
	prev := -1
	for i := 0; i < ninit; i++ {
		name := shape.env[i][:1]
		named := false
		for j := 0; j < nedit; j++ {
			if e.Env[j][:1] == name {
				named = true
			}
		}
		if named {
			continue
		}
		vreach("env-untouched-variable")
		cnt, at := 0, -1
		for j := 0; j < len(res); j++ {
			if res[j][:1] == name {
				cnt++
				at = j
			}
		}
		vassert("env-others-kept-once", cnt == 1 && at >= 0 && res[at] == shape.env[i])
		vassert("env-others-keep-order", at > prev)
		prev = at
	}
	// nothing but variables of the initial spec or the edits appears
	for j := 0; j < len(res); j++ {
		known := false
		for i := 0; i < ninit; i++ {
			if res[j] == shape.env[i] {
				known = true
			}
		}
		for i := 0; i < nedit; i++ {
			if res[j] == e.Env[i] {
				known = true
			}
		}
		vassert("env-no-foreign-entries", known)
	}
}

// ------------------------------------------------------------------ device nodes

type vHostAnswer struct {
	fail bool
	mode uint32
	rdev uint64
}

var vHostLog []vHostAnswer

func stubLstatLog(path string, st *unix.Stat_t) error {
	a := vHostAnswer{fail: nondetBool("host.fail"), mode: nondetU32("host.mode"), rdev: nondetU64("host.rdev")}
	vHostLog = append(vHostLog, a)
	if a.fail {
		return vPathErr("lstat", os.ErrNotExist)
	}
	st.Mode = a.mode
	st.Rdev = a.rdev
	return nil
}

func vHostType(mode uint32) string {
	switch mode & unix.S_IFMT {
	case unix.S_IFBLK:
		return "b"
	case unix.S_IFCHR:
		return "c"
	case unix.S_IFIFO:
		return "p"
	}
	return ""
}

func H_C03_devices() {
	vHostLog = nil
	shape := vDrawOCI("oci.", 0, 0, 0)
	ninit := nondetLen("ninit", 0, vparam("NINIT"))
	for i := 0; i < ninit; i++ {
		p := "/dev/" + nondetStringN("ip"+string(rune('0'+i)), 1)
		for j := 0; j < i; j++ {
			vassume(shape.devPath[j] != p)
		}
		shape.devPath = append(shape.devPath, p)
	}
	if ninit > 0 {
		shape.hasLinux = true
	}
	o := vMkOCI(shape)
	nrules0 := 0
	if o.Linux != nil && o.Linux.Resources != nil {
		nrules0 = len(o.Linux.Resources.Devices)
	}
	nedit := nondetLen("nedit", 1, vparam("NEDIT"))
	e := &cdi.ContainerEdits{}
	types := []string{"", "b", "c", "u", "p"}
	perms := []string{"", "r", "rw", "rwm", "m"}
	for i := 0; i < nedit; i++ {
		s := string(rune('0' + i))
		dn := &cdi.DeviceNode{Path: "/dev/" + nondetStringN("ep"+s, 1)}
		dn.Type = types[nondetIntRange("etype"+s, 0, 4)]
		dn.Major = nondetI64("emajor" + s)
		dn.Minor = nondetI64("eminor" + s)
		dn.Permissions = perms[nondetIntRange("eperm"+s, 0, 4)]
		if nondetBool("ehasuid" + s) {
			u := nondetU32("euid" + s)
			dn.UID = &u
		}
		if nondetBool("ehasgid" + s) {
			g := nondetU32("egid" + s)
			dn.GID = &g
		}
		if nondetBool("ehasmode" + s) {
			m := os.FileMode(nondetU32("emode" + s))
			dn.FileMode = &m
		}
		e.DeviceNodes = append(e.DeviceNodes, dn)
	}
	// pristine copies: the statement is about what the edits say, not what Apply may do to them
	pr := vCopyEdits(e)
	err := vApply(e, o)
	if err != nil {
		vreach("dev-apply-failed")
		return
	}
	vreach("dev-applied")
	vassert("dev-linux-exists", o.Linux != nil)
	if o.Linux == nil {
		return
	}
	// expected final attributes per edit node, consuming host answers in order
	type exp struct {
		path, typ    string
		major, minor int64
		uid, gid     *uint32
		mode         *os.FileMode
		rule         bool
		access       string
	}
	var exps []exp
	h := 0
	for i := 0; i < nedit; i++ {
		d := pr.DeviceNodes[i]
		x := exp{path: d.Path, typ: d.Type, major: d.Major, minor: d.Minor, uid: d.UID, gid: d.GID, mode: d.FileMode}
		unspecified := d.Type == "" || (d.Major == 0 && d.Type != "p")
		if unspecified {
			vassert("dev-host-consulted", h < len(vHostLog))
			if h >= len(vHostLog) {
				return
			}
			a := vHostLog[h]
			h++
			if d.Type == "" {
				x.typ = vHostType(a.mode)
			}
			if d.Major == 0 && x.typ != "p" {
				x.major = int64(unix.Major(a.rdev))
				x.minor = int64(unix.Minor(a.rdev))
			}
		}
		if x.uid == nil && o.Process != nil && o.Process.User.UID != 0 {
			u := o.Process.User.UID
			x.uid = &u
		}
		if x.gid == nil && o.Process != nil && o.Process.User.GID != 0 {
			g := o.Process.User.GID
			x.gid = &g
		}
		x.rule = x.typ == "b" || x.typ == "c"
		x.access = d.Permissions
		if x.access == "" {
			x.access = "rwm"
		}
		exps = append(exps, x)
	}
	vassert("dev-host-consulted-only-when-unspecified", h == len(vHostLog))
	devs := o.Linux.Devices
	for i := 0; i < nedit; i++ {
		last := true
		for j := i + 1; j < nedit; j++ {
			if exps[j].path == exps[i].path {
				last = false
			}
		}
		if !last {
			continue
		}
		cnt, at := 0, -1
		for j := 0; j < len(devs); j++ {
			if devs[j].Path == exps[i].path {
				cnt++
				at = j
			}
		}
		vassert("dev-one-node-per-path", cnt == 1)
		if cnt == 1 {
			g := devs[at]
			x := exps[i]
			vassert("dev-type-major-minor", g.Type == x.typ && g.Major == x.major && g.Minor == x.minor)
			vassert("dev-uid-gid", vEqU32p(g.UID, x.uid) && vEqU32p(g.GID, x.gid))
			vassert("dev-filemode", vEqModep(g.FileMode, x.mode))
		}
	}
	// initial nodes at other paths are kept
	for i := 0; i < ninit; i++ {
		replaced := false
		for j := 0; j < nedit; j++ {
			if exps[j].path == shape.devPath[i] {
				replaced = true
			}
		}
		if replaced {
			vreach("dev-initial-replaced")
			continue
		}
		cnt := 0
		for j := 0; j < len(devs); j++ {
			if devs[j].Path == shape.devPath[i] && devs[j].Major == 9 && devs[j].Minor == 9 {
				cnt++
			}
		}
		vassert("dev-other-initial-nodes-kept", cnt == 1)
	}
	// allow rules: existing ones kept, one appended per block/char edit node, in order
	var rules []oci.LinuxDeviceCgroup
	if o.Linux.Resources != nil {
		rules = o.Linux.Resources.Devices
	}
	k := nrules0
	if nrules0 == 1 {
		vassert("dev-existing-rule-kept", len(rules) >= 1 && rules[0].Allow == false && rules[0].Access == "rwm" && rules[0].Major == nil)
	}
	for i := 0; i < nedit; i++ {
		if !exps[i].rule {
			continue
		}
		vreach("dev-rule")
		vassert("dev-rule-present", k < len(rules))
		if k < len(rules) {
			r := rules[k]
			vassert("dev-rule-content", r.Allow && r.Type == exps[i].typ && r.Major != nil && *r.Major == exps[i].major && r.Minor != nil && *r.Minor == exps[i].minor && r.Access == exps[i].access)
		}
		k++
	}
	vassert("dev-no-extra-rules", k == len(rules))
}

// ------------------------------------------------------------------ mounts

// destinations come from a menu that exercises depth, trailing/duplicate slashes, dot and dot-dot elements
// (a concrete choice per mount: filepath.Clean and the sort then run on concrete strings)
var vDestMenu = []string{"/", "/a", "/b", "/a/b", "/a/b/c", "/a/", "//a", "/a/./b", "/a/..", "/a/b/../c", "/b/c/d/e"}

func vDest(name string, n int) string {
	if n > len(vDestMenu) {
		n = len(vDestMenu)
	}
	return vDestMenu[nondetChoice(name, n)]
}

func vDepth(dest string) int {
	return strings.Count(filepath.Clean(dest), "/")
}

func H_C03_mounts() {
	shape := vDrawOCI("oci.", 0, 0, 0)
	o := vMkOCI(shape)
	ninit := nondetLen("ninit", 0, vparam("NINIT"))
	L := vparam("DLEN")
	var all []string
	for i := 0; i < ninit; i++ {
		d := vDest("id"+string(rune('0'+i)), L)
		for _, p := range all {
			vassume(p != d) // well-formed initial spec: unique destinations
		}
		all = append(all, d)
		o.Mounts = append(o.Mounts, oci.Mount{Destination: d, Source: "/init" + string(rune('0'+i))})
	}
	nedit := nondetLen("nedit", 1, vparam("NEDIT"))
	e := &cdi.ContainerEdits{}
	for i := 0; i < nedit; i++ {
		d := vDest("ed"+string(rune('0'+i)), L)
		all = append(all, d)
		e.Mounts = append(e.Mounts, &cdi.Mount{HostPath: "/edit" + string(rune('0'+i)), ContainerPath: d, Type: "bind"})
	}
	// destinations that differ as strings but are the same after cleaning are outside the statement
	for i := range all {
		for j := 0; j < i; j++ {
			vassume(all[i] == all[j] || filepath.Clean(all[i]) != filepath.Clean(all[j]))
		}
	}
	// expected list before ordering: every edit replaces whatever sits at its destination, then is appended
	type mnt struct{ dst, src string }
	var exp []mnt
	for _, m := range o.Mounts {
		exp = append(exp, mnt{m.Destination, m.Source})
	}
	for _, m := range e.Mounts {
		var kept []mnt
		for _, x := range exp {
			if x.dst != m.ContainerPath {
				kept = append(kept, x)
			}
		}
		exp = append(kept, mnt{m.ContainerPath, m.HostPath})
	}
	// stable order by depth (insertion sort)
	for i := 1; i < len(exp); i++ {
		for j := i; j > 0 && vDepth(exp[j].dst) < vDepth(exp[j-1].dst); j-- {
			exp[j], exp[j-1] = exp[j-1], exp[j]
		}
	}
	err := vApply(e, o)
	vassert("mount-apply-ok", err == nil)
	vreach("mounts-applied")
	vassert("mount-count", len(o.Mounts) == len(exp))
	if len(o.Mounts) == len(exp) {
		for i := range exp {
			vassert("mount-order-and-content", o.Mounts[i].Destination == exp[i].dst && o.Mounts[i].Source == exp[i].src)
		}
	}
}

// ------------------------------------------------------------------ hooks

func H_C03_hooks() {
	shape := vDrawOCI("oci.", 0, 0, 0)
	o := vMkOCI(shape)
	names := []string{"prestart", "createRuntime", "createContainer", "startContainer", "poststart", "poststop"}
	nedit := nondetLen("nedit", 1, vparam("NEDIT"))
	e := &cdi.ContainerEdits{}
	var stage []int
	for i := 0; i < nedit; i++ {
		k := nondetChoice("stage"+string(rune('0'+i)), 6)
		stage = append(stage, k)
		e.Hooks = append(e.Hooks, &cdi.Hook{HookName: names[k], Path: "/bin/h" + string(rune('0'+i)), Args: []string{"a"}, Env: []string{"X=1"}})
	}
	before := vMkOCI(shape)
	err := vApply(e, o)
	vassert("hooks-apply-ok", err == nil)
	vassert("hooks-section-exists", o.Hooks != nil)
	if o.Hooks == nil {
		return
	}
	vreach("hooks-applied")
	lists := [][]oci.Hook{o.Hooks.Prestart, o.Hooks.CreateRuntime, o.Hooks.CreateContainer, o.Hooks.StartContainer, o.Hooks.Poststart, o.Hooks.Poststop}
	var old [][]oci.Hook
	if before.Hooks != nil {
		old = [][]oci.Hook{before.Hooks.Prestart, before.Hooks.CreateRuntime, before.Hooks.CreateContainer, before.Hooks.StartContainer, before.Hooks.Poststart, before.Hooks.Poststop}
	} else {
		old = make([][]oci.Hook, 6)
	}
	for s := 0; s < 6; s++ {
		var exp []oci.Hook
		exp = append(exp, old[s]...)
		for i := 0; i < nedit; i++ {
			if stage[i] == s {
				exp = append(exp, oci.Hook{Path: e.Hooks[i].Path, Args: e.Hooks[i].Args, Env: e.Hooks[i].Env})
			}
		}
		vassert("hooks-appended-in-order-to-their-stage", vEqHooks(lists[s], exp))
	}
}

// ------------------------------------------------------------------ additional GIDs

func H_C03_gids() {
	shape := vDrawOCI("oci.", 0, 0, 0)
	nold := nondetLen("nold", 0, 2)
	shape.gids = nil
	for i := 0; i < nold; i++ {
		g := nondetU32("old" + string(rune('0'+i)))
		vassume(g != 0)
		for _, x := range shape.gids {
			vassume(x != g)
		}
		shape.gids = append(shape.gids, g)
	}
	o := vMkOCI(shape)
	nedit := nondetLen("nedit", 1, vparam("NEDIT"))
	e := &cdi.ContainerEdits{}
	for i := 0; i < nedit; i++ {
		e.AdditionalGIDs = append(e.AdditionalGIDs, nondetU32("g"+string(rune('0'+i))))
	}
	var exp []uint32
	if shape.hasProcess {
		exp = append(exp, shape.gids...)
	}
	for _, g := range e.AdditionalGIDs {
		dup := g == 0
		for _, x := range exp {
			if x == g {
				dup = true
			}
		}
		if !dup {
			exp = append(exp, g)
		}
	}
	err := vApply(e, o)
	vassert("gids-apply-ok", err == nil)
	var got []uint32
	if o.Process != nil {
		got = o.Process.User.AdditionalGids
	}
	vreach("gids-applied")
	vassert("gids-count", len(got) == len(exp))
	if len(got) == len(exp) {
		for i := range exp {
			vassert("gids-in-order-no-duplicates-never-zero", got[i] == exp[i] && got[i] != 0)
		}
	}
}

// ------------------------------------------------------------------ Intel RDT

func H_C03_rdt() {
	shape := vDrawOCI("oci.", 0, 0, 0)
	o := vMkOCI(shape)
	before := vMkOCI(shape)
	e := &cdi.ContainerEdits{Env: []string{"A=1"}}
	has := nondetBool("edit.hasRdt")
	if has {
		e.IntelRdt = &cdi.IntelRdt{ClosID: nondetStringN("closid", 2), L3CacheSchema: "l3", MemBwSchema: "mb", EnableCMT: nondetBool("cmt"), EnableMBM: nondetBool("mbm")}
	}
	err := vApply(e, o)
	vassert("rdt-apply-ok", err == nil)
	if has {
		vreach("rdt-replaced")
		vassert("rdt-set", o.Linux != nil && o.Linux.IntelRdt != nil)
		if o.Linux != nil && o.Linux.IntelRdt != nil {
			r := o.Linux.IntelRdt
			vassert("rdt-replaced-by-edit", r.ClosID == e.IntelRdt.ClosID && r.L3CacheSchema == "l3" && r.MemBwSchema == "mb" && r.EnableCMT == e.IntelRdt.EnableCMT && r.EnableMBM == e.IntelRdt.EnableMBM)
		}
	} else {
		vreach("rdt-kept")
		vassert("rdt-untouched-without-edit", vEqLinux(o.Linux, before.Linux))
	}
}

// ------------------------------------------------------------------ frame: nothing else changes

func H_C03_frame() {
	vHostLog = nil
	shape := vDrawOCI("oci.", 1, 1, 1)
	o := vMkOCI(shape)
	before := vMkOCI(shape)
	if nondetChoice("initial-mounts-not-in-depth-order", 2) == 1 {
		// a deeper destination listed before a shallower one: only an edit that names mounts may reorder them
		for _, x := range []*oci.Spec{o, before} {
			x.Mounts = append(x.Mounts, oci.Mount{Destination: "/deep/er", Source: "/s1"}, oci.Mount{Destination: "/top", Source: "/s2"})
		}
	}
	root, ann := o.Root, o.Annotations
	e := &cdi.ContainerEdits{}
	kind := nondetChoice("kind", 7)
	switch kind {
	case 0:
		e.Env = []string{"N=v"}
	case 1:
		e.DeviceNodes = []*cdi.DeviceNode{{Path: "/dev/new", Type: "c", Major: 1, Minor: 2}}
	case 2:
		e.Mounts = []*cdi.Mount{{HostPath: "/h", ContainerPath: "/new"}}
	case 3:
		e.Hooks = []*cdi.Hook{{HookName: "createRuntime", Path: "/bin/h"}}
	case 4:
		e.AdditionalGIDs = []uint32{7}
	case 5:
		e.IntelRdt = &cdi.IntelRdt{ClosID: "x"}
	case 6:
		// empty edits
	}
	err := vApply(e, o)
	vassert("frame-apply-ok", err == nil)
	vreach("frame")
	vassert("frame-scalars", o.Version == before.Version && o.Hostname == before.Hostname && o.Domainname == before.Domainname)
	vassert("frame-root-annotations", o.Root == root && o.Root.Path == "rootfs" && len(o.Annotations) == 1 && o.Annotations["a"] == "b" && len(ann) == 1)
	vassert("frame-other-platforms", o.Solaris == nil && o.Windows == nil && o.VM == nil && o.ZOS == nil)
	if before.Process != nil {
		vassert("frame-process-rest", o.Process != nil && o.Process.Cwd == "/" && vEqStrs(o.Process.Args, before.Process.Args) && o.Process.User.UID == before.Process.User.UID && o.Process.User.GID == before.Process.User.GID)
	}
	if before.Linux != nil {
		vassert("frame-linux-rest", o.Linux != nil && o.Linux.CgroupsPath == "/cg")
	}
	// sections the edit kind does not name are untouched
	if kind != 0 && kind != 4 {
		vassert("frame-process-untouched", vEqProcess(o.Process, before.Process))
	}
	if kind != 2 {
		vassert("frame-mounts-untouched", vEqMounts(o.Mounts, before.Mounts))
	}
	if kind != 3 {
		vassert("frame-hooks-untouched", vEqOCIHooks(o.Hooks, before.Hooks))
	}
	if kind != 1 && kind != 5 {
		vassert("frame-linux-untouched", vEqLinux(o.Linux, before.Linux))
	}
}
