package cdi

import (
	"github.com/fsnotify/fsnotify"
	oci "github.com/opencontainers/runtime-spec/specs-go"
)

// C12 — lock discipline: every access to the shared cache state, by every public operation, happens while the
// cache mutex is held; the mutex is never locked twice and is released on return.
// (Interleavings are not enumerated: with one mutex and all accesses inside critical sections no two accesses race.)

func init() {
	vregister("H_C12_locks", H_C12_locks)
	vregister("H_C12_snapshot", H_C12_snapshot)
	vregister("H_C12_switch", H_C12_switch)
}

// The directory switches atomically from state A (devices x, y) to state B (devices x, y, w) after the cache was built.
// One injection naming x, w, y must reflect A completely (w unresolved, the OCI spec untouched) or B completely
// (all three edits of the later generation) - never x from A next to w from B.
func H_C12_switch() {
	vResetWatchers()
	vShortage = nondetChoice("no-watcher", 2) == 1 // without a watcher every query rescans: the injection must see B
	auto := nondetBool("auto-refresh")
	m := &vFS{root: "/vfs"}
	d := &vDir{path: "/vfs/d0"}
	f := &vFile{name: "a.json", state: vFileValid, vendor: "v0", devs: []string{"x", "w", "y"}}
	d.files = []*vFile{f}
	m.dirs = []*vDir{d}
	vfs = m
	vTagGen, vScanGen, vLateDev = true, 0, "w"
	c := newCache(WithSpecDirs(d.path), WithAutoRefresh(auto)) // first scan: state A
	o := &oci.Spec{}
	unresolved, err := c.InjectDevices(o, "v0/c=x", "v0/c=w", "v0/c=y")
	vTagGen, vLateDev = false, ""
	vreach("switch-injection-returned")
	if err != nil {
		// state A: the request fails as a whole
		vreach("switch-refused")
		vassert("switch-miss-names-the-late-device", len(unresolved) == 1 && unresolved[0] == "v0/c=w")
		vassert("switch-miss-leaves-oci-untouched", o.Process == nil)
		vassert("switch-rescanning-cache-sees-the-new-state", !(auto && vShortage))
		return
	}
	vreach("switch-injected")
	if o.Process == nil {
		vassert("switch-success-has-edits", false)
		return
	}
	env := o.Process.Env
	vassert("switch-three-edits", len(env) == 3)
	if len(env) == 3 {
		vassert("switch-injection-reflects-one-state", env[0][5] == env[1][5] && env[1][5] == env[2][5])
	}
}

// One injection reflects one snapshot of the directories: the directory content changes between any two scans
// (every Spec read is tagged with the scan generation); all devices injected by one call must carry one generation.
func H_C12_snapshot() {
	vResetWatchers()
	vShortage = nondetChoice("no-watcher", 2) == 1 // without a watcher every query rescans
	m := &vFS{root: "/vfs"}
	d := &vDir{path: "/vfs/d0"}
	f := &vFile{name: "a.json", state: vFileValid, vendor: "v0", devs: []string{"x", "y", "z"}}
	d.files = []*vFile{f, {name: "b.yaml"}}
	m.dirs = []*vDir{d}
	vfs = m
	vTagGen, vScanGen = true, 0
	c := newCache(WithSpecDirs(d.path), WithAutoRefresh(true))
	o := &oci.Spec{}
	unresolved, err := c.InjectDevices(o, "v0/c=x", "v0/c=y", "v0/c=z")
	vTagGen = false
	vassert("snapshot-injection-succeeds", err == nil && len(unresolved) == 0)
	if err != nil || o.Process == nil {
		return
	}
	env := o.Process.Env
	vreach("snapshot-injected")
	vassert("snapshot-three-edits", len(env) == 3)
	if len(env) == 3 {
		// "GENx=<g>", "GENy=<g>", "GENz=<g>": one generation
		vassert("injection-reflects-one-snapshot", env[0][5] == env[1][5] && env[1][5] == env[2][5])
	}
}

func H_C12_locks() {
	vResetWatchers()
	m := vDrawFS(1, false, 1)
	defer vCleanupFS()
	dir := m.dirs[0].path
	vResetDisk(dir, true)
	c := newCache(WithAutoRefresh(false), WithSpecDirs(dir))
	// an arbitrary published state: auto-refresh on/off, watcher nil or live, directory errors or not
	switch nondetChoice("mode", 3) {
	case 1:
		c.autoRefresh = true // watcher creation had failed: nil watcher
	case 2:
		c.autoRefresh = true
		w, _ := stubNewWatcher()
		c.watch.watcher = w
		c.watch.tracked = map[string]bool{dir: nondetBool("tracked")}
	}
	if nondetBool("has-direrror") {
		c.dirErrors[dir] = vNewErr("failed to monitor")
	}
	o := &oci.Spec{}
	var spec *Spec
	if ss := c.specs["v0"]; len(ss) > 0 {
		spec = ss[0]
	} else {
		spec = &Spec{path: "/nowhere"}
	}
	op := nondetChoice("op", 18)
	wref, derrs := c.watch, c.dirErrors // read here: the harness itself must not touch the guarded state later
	vguard(&c.Mutex, c, c.watch, c.specs, c.devices, c.errors, c.dirErrors, c.specDirs)
	switch op {
	case 0:
		_ = c.Configure(WithSpecDirs(dir, "/vfs/other"))
	case 1:
		_ = c.Configure(WithAutoRefresh(nondetBool("newauto")))
	case 2:
		_ = c.Refresh()
	case 3:
		_, _ = c.InjectDevices(o, "v0/c=a")
	case 4:
		_ = c.WriteSpec(vValidRaw("v0/c"), "x.json")
	case 5:
		_ = c.RemoveSpec("x.json")
	case 6:
		_ = c.GetDevice("v0/c=a")
	case 7:
		_ = c.ListDevices()
	case 8:
		_ = c.ListVendors()
	case 9:
		_ = c.ListClasses()
	case 10:
		_ = c.GetVendorSpecs("v0")
	case 11:
		_ = c.GetSpecErrors(spec)
	case 12:
		_ = c.GetErrors()
	case 13:
		_ = c.GetSpecDirectories()
	case 14:
		_ = c.GetSpecDirErrors()
	case 15:
		_ = c.Configure()
	case 16:
		_, _ = c.InjectDevices(nil, "v0/c=a")
	case 17:
		// the watcher goroutine's body, processing one pending event (the watch may have been stopped meanwhile)
		fsw := &fsnotify.Watcher{Events: make(chan fsnotify.Event, 2), Errors: make(chan error, 1)}
		vWatchers[fsw] = &vWatcherState{watches: map[string]bool{dir: true}}
		evs := []fsnotify.Event{{Name: dir + "/a.json", Op: fsnotify.Write}, {Name: dir, Op: fsnotify.Remove}, {Name: dir + "/x.json", Op: fsnotify.Create}}
		fsw.Events <- evs[nondetChoice("event", len(evs))]
		close(fsw.Events)
		wref.watch(fsw, &c.Mutex, c.refresh, derrs)
	}
	vunguard()
	vreach("operation-returned")
	vassert("mutex-released-on-return", vMutexFree(&c.Mutex))
}
