package cdi

import (
	oci "github.com/opencontainers/runtime-spec/specs-go"
	cdi "tags.cncf.io/container-device-interface/specs-go"
)

// C14 — injection changes nothing but the OCI spec and is repeatable.

func init() {
	vregister("H_C14_frame", H_C14_frame)
	vregister("H_C14_repeat", H_C14_repeat)
}

// a cache whose first device has a device node leaving hostPath/type/major/minor/uid/gid unspecified in all combinations
func vMkCacheC14() (*Cache, []string, *cdi.DeviceNode) {
	c, keys := vMkCache(1, false)
	dn := &cdi.DeviceNode{Path: "/dev/x"}
	if nondetBool("dn.hasHostPath") {
		dn.HostPath = "/dev/hx"
	}
	switch nondetIntRange("dn.type", 0, 4) {
	case 1:
		dn.Type = "c"
	case 2:
		dn.Type = "b"
	case 3:
		dn.Type = "p"
	case 4:
		dn.Type = "u"
	}
	if nondetBool("dn.hasMajor") {
		dn.Major = 5
		dn.Minor = 6
	}
	d := c.devices[keys[0]]
	d.Device.ContainerEdits.DeviceNodes = []*cdi.DeviceNode{dn}
	return c, keys, dn
}

func H_C14_frame() {
	c, keys, _ := vMkCacheC14()
	shape := vDrawOCI("oci.", 1, 1, 1)
	o := vMkOCI(shape)
	dev := c.devices[keys[0]]
	before, _ := cdi.MinimumRequiredVersion(dev.spec.Spec)
	tok := vfreeze(c)
	var err error
	switch nondetChoice("api", 3) {
	case 0:
		_, err = c.InjectDevices(o, keys[0], keys[1])
	case 1:
		err = dev.ApplyEdits(o)
	case 2:
		err = dev.GetSpec().ApplyEdits(o)
	}
	if err == nil {
		vreach("applied")
	} else {
		vreach("apply-failed")
	}
	vunchanged(tok, "cache-unchanged-by-injection")
	after, _ := cdi.MinimumRequiredVersion(dev.spec.Spec)
	vassert("spec-still-writable-at-its-version", before == after)
}

// two injections into equal OCI specs; the host may answer differently the second time
func H_C14_repeat() {
	c, keys, _ := vMkCacheC14()
	shape := vDrawOCI("oci.", 1, 1, 1)
	o1 := vMkOCI(shape)
	o2 := vMkOCI(shape)
	vLstatCalls = 0
	_, err1 := c.InjectDevices(o1, keys[0])
	n1 := vLstatCalls
	_, err2 := c.InjectDevices(o2, keys[0])
	n2 := vLstatCalls - n1
	// nothing is remembered: the host is consulted at the second injection exactly when it was at the first
	vassert("host-consulted-at-each-injection", n1 == n2)
	if err1 == nil && err2 == nil {
		vreach("both-ok")
		if n1 == 0 {
			vreach("no-host-lookup")
			vassert("equal-results-when-host-not-consulted", vEqOCI(o1, o2))
		}
	}
	_ = oci.Spec{}
}
