package cdi

import (
	oci "github.com/opencontainers/runtime-spec/specs-go"
	"golang.org/x/sys/unix"
	cdi "tags.cncf.io/container-device-interface/specs-go"
)

// C14 — injection changes nothing but the OCI spec and is repeatable.

func init() {
	vregister("H_C14_frame", H_C14_frame)
	vregister("H_C14_repeat", H_C14_repeat)
	vregister("H_C14_order", H_C14_order)
}

// repeatability across Spec files: the same request injected twice gives equal results whatever order Go's map
// iteration happens to take (the engine runs the first injection with insertion order, the second with the reverse)
func H_C14_order() {
	c, keys := vMkCache(2, false)
	shape := vDrawOCI("oci.", 1, 0, 0)
	o1 := vMkOCI(shape)
	o2 := vMkOCI(shape)
	req := []string{keys[nondetChoice("first", 2)], keys[2+nondetChoice("second", 2)]}
	vmapOrder(0)
	_, err1 := c.InjectDevices(o1, req...)
	vmapOrder(1)
	_, err2 := c.InjectDevices(o2, req...)
	vmapOrder(0)
	vreach("injected-twice")
	vassert("same-outcome-both-times", (err1 == nil) == (err2 == nil))
	if err1 == nil && err2 == nil {
		vassert("same-request-equal-results", vEqOCI(o1, o2))
	}
}

// a cache whose first device has a device node leaving hostPath/type/major/minor/uid/gid unspecified in all combinations
func vMkCacheC14() (*Cache, []string, *cdi.DeviceNode) {
	c, keys := vMkCache(1, false)
	dn := &cdi.DeviceNode{Path: "/dev/x"}
	if nondetBool("dn.hasHostPath") {
		dn.HostPath = "/dev/hx"
	}
	switch nondetIntRange("dn.type", 0, 4) {
	case 1:
		dn.Type = "c"
	case 2:
		dn.Type = "b"
	case 3:
		dn.Type = "p"
	case 4:
		dn.Type = "u"
	}
	if nondetBool("dn.hasMajor") {
		dn.Major = 5
		dn.Minor = 6
	}
	d := c.devices[keys[0]]
	d.Device.ContainerEdits.DeviceNodes = []*cdi.DeviceNode{dn}
	return c, keys, dn
}

func H_C14_frame() {
	c, keys, _ := vMkCacheC14()
	shape := vDrawOCI("oci.", 1, 1, 1)
	o := vMkOCI(shape)
	dev := c.devices[keys[0]]
	before, _ := cdi.MinimumRequiredVersion(dev.spec.Spec)
	tok := vfreeze(c)
	var err error
	switch nondetChoice("api", 3) {
	case 0:
		_, err = c.InjectDevices(o, keys[0], keys[1])
	case 1:
		err = dev.ApplyEdits(o)
	case 2:
		err = dev.GetSpec().ApplyEdits(o)
	}
	if err == nil {
		vreach("applied")
	} else {
		vreach("apply-failed")
	}
	vunchanged(tok, "cache-unchanged-by-injection")
	after, _ := cdi.MinimumRequiredVersion(dev.spec.Spec)
	vassert("spec-still-writable-at-its-version", before == after)
}

// two injections into equal OCI specs; the host may answer differently the second time
func H_C14_repeat() {
	c, keys, dn := vMkCacheC14()
	dnType, dnHasMajor := dn.Type, dn.Major != 0
	shape := vDrawOCI("oci.", 1, 1, 1)
	o1 := vMkOCI(shape)
	o2 := vMkOCI(shape)
	vHostLog = nil
	_, err1 := c.InjectDevices(o1, keys[0])
	n1 := len(vHostLog)
	_, err2 := c.InjectDevices(o2, keys[0])
	n2 := len(vHostLog) - n1
	// nothing is remembered: the host is consulted at the second injection exactly when it was at the first
	vassert("host-consulted-at-each-injection", n1 == n2)
	if err1 == nil && err2 == nil {
		vreach("both-ok")
		if n1 == 0 {
			vreach("no-host-lookup")
			vassert("equal-results-when-host-not-consulted", vEqOCI(o1, o2))
		}
		if n1 == 1 && n2 == 1 {
			// unspecified attributes come from the host node as it is at each injection
			vreach("host-consulted-twice")
			a1, a2 := vHostLog[0], vHostLog[1]
			d1 := o1.Linux.Devices[len(o1.Linux.Devices)-1]
			d2 := o2.Linux.Devices[len(o2.Linux.Devices)-1]
			if dnType == "" {
				vassert("type-from-the-host-at-each-injection", d1.Type == vHostType(a1.mode) && d2.Type == vHostType(a2.mode))
			}
			if !dnHasMajor && d2.Type != "p" && d1.Type != "p" {
				vassert("major-minor-from-the-host-at-each-injection", d1.Major == int64(unix.Major(a1.rdev)) && d2.Major == int64(unix.Major(a2.rdev)) && d2.Minor == int64(unix.Minor(a2.rdev)))
			}
			if a1.mode == a2.mode && a1.rdev == a2.rdev {
				vassert("equal-host-answers-give-equal-results", vEqOCI(o1, o2))
			}
		}
	}
	_ = oci.Spec{}
}
