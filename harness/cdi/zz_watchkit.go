package cdi

// A model of fsnotify watchers (C11, C12, C20): creation may fail (descriptor shortage), Add succeeds iff the
// directory exists in the file-system model, Close is idempotent and closes the channels.

import (
	"os"

	"github.com/fsnotify/fsnotify"
)

type vWatcherState struct {
	closed  bool
	watches map[string]bool
}

var (
	vWatchers     map[*fsnotify.Watcher]*vWatcherState
	vLiveWatchers int
	vMadeWatchers int
	vShortage     bool // descriptor shortage: NewWatcher fails
)

func vResetWatchers() {
	vWatchers = map[*fsnotify.Watcher]*vWatcherState{}
	vLiveWatchers, vMadeWatchers = 0, 0
	vShortage = false
}

func stubNewWatcher() (*fsnotify.Watcher, error) {
	if vShortage {
		return nil, vPathErr("inotify_init", os.ErrInvalid)
	}
	w := &fsnotify.Watcher{Events: make(chan fsnotify.Event, 8), Errors: make(chan error, 1)}
	vWatchers[w] = &vWatcherState{watches: map[string]bool{}}
	vLiveWatchers++
	vMadeWatchers++
	return w, nil
}

func vDirExists(path string) bool {
	if vfs == nil {
		return false
	}
	d := vfs.dirByPath(path)
	return d != nil && (d.state == vDirOK || d.state == vDirUnread)
}

func stubWatcherAdd(w *fsnotify.Watcher, name string) error {
	_ = w.Events // like the real method, a nil receiver is a nil-pointer dereference
	st := vWatchers[w]
	if st == nil || st.closed {
		return vNewErr("inotify instance already closed")
	}
	if !vDirExists(name) {
		return vPathErr("inotify_add_watch", os.ErrNotExist)
	}
	st.watches[name] = true
	return nil
}

func stubWatcherClose(w *fsnotify.Watcher) error {
	_ = w.Events // like the real method, a nil receiver is a nil-pointer dereference
	st := vWatchers[w]
	if st == nil || st.closed {
		return nil
	}
	st.closed = true
	vLiveWatchers--
	close(w.Events)
	close(w.Errors)
	return nil
}
