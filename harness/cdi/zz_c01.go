package cdi

// C01 — device resolution follows Spec-directory precedence (and, with faults switched on, C13 — a bad Spec file or
// directory affects only itself and is reported). The oracle is computed from the directory model alone.

import (
	"os"
	"path/filepath"
)

func init() {
	vregister("H_C01_precedence", H_C01_precedence)
	vregister("H_C13_faults", H_C13_faults)
	vregister("H_C13_repair", H_C13_repair)
	vregister("H_C13_dirrepair", H_C13_dirrepair)
}

type vDef struct {
	file *vFile
	dir  *vDir
	path string
	name string // qualified
}

// all definitions offered by valid, reachable Spec files, per directory-list position
func vDefsAt(d *vDir) []vDef {
	var out []vDef
	if d.state != vDirOK {
		return nil
	}
	for _, f := range d.files {
		if f.state != vFileValid {
			continue
		}
		for _, n := range f.devs {
			out = append(out, vDef{file: f, dir: d, path: d.path + "/" + f.name, name: f.vendor + "/c=" + n})
		}
	}
	return out
}

func vCheckResolution(c *Cache, m *vFS, list []*vDir) {
	// candidates: every definition in every listed directory
	for pos := range list {
		for _, cand := range vDefsAt(list[pos]) {
			q := cand.name
			// last list position whose directory defines q, and how many files define it there
			last, cnt := -1, 0
			var winner vDef
			for p := range list {
				n := 0
				var w vDef
				for _, df := range vDefsAt(list[p]) {
					if df.name == q {
						n++
						w = df
					}
				}
				if n > 0 {
					last, cnt, winner = p, n, w
				}
			}
			dev := c.GetDevice(q)
			if cnt == 1 {
				vreach("resolves")
				vassert("defined-once-in-highest-priority-directory-resolves", dev != nil)
				if dev != nil {
					vassert("resolves-to-that-file", dev.GetSpec().GetPath() == winner.path && dev.GetSpec().GetPriority() == last)
					vassert("resolves-to-that-definition", dev.Name == q[len(q)-1:] && dev.GetSpec().GetVendor() == winner.file.vendor)
				}
				if last > pos {
					vreach("shadowed-lower-definition")
				}
			} else {
				vreach("conflict")
				vassert("conflict-in-highest-priority-directory-does-not-resolve", dev == nil)
			}
		}
	}
	// nothing else resolves: every listed device is a candidate that the oracle resolves (checked above), i.e. a candidate
	for _, name := range c.ListDevices() {
		found := false
		for pos := range list {
			for _, cand := range vDefsAt(list[pos]) {
				if cand.name == name {
					found = true
				}
			}
		}
		vassert("listed-devices-are-defined-by-valid-spec-files", found)
	}
	// vendors and classes: exactly those of the valid Spec files directly inside the listed directories
	v0, v1 := false, false
	for pos := range list {
		for _, cand := range vDefsAt(list[pos]) {
			if cand.file.vendor == "v0" {
				v0 = true
			} else {
				v1 = true
			}
		}
	}
	vs := c.ListVendors()
	nv := 0
	if v0 {
		nv++
	}
	if v1 {
		nv++
	}
	vassert("vendors-exact", len(vs) == nv && (!v0 || vs[0] == "v0") && (!v1 || vs[nv-1] == "v1"))
	cl := c.ListClasses()
	vassert("classes-exact", (nv == 0 && len(cl) == 0) || (nv > 0 && len(cl) == 1 && cl[0] == "c"))
	for _, s := range c.GetVendorSpecs("v0") {
		vassert("vendor-specs-belong-to-vendor", s.GetVendor() == "v0")
	}
}

func vDrawDirList(m *vFS, maxLen int) ([]*vDir, []string) {
	n := nondetLen("nlist", 1, maxLen)
	var list []*vDir
	var paths []string
	for i := 0; i < n; i++ {
		d := m.dirs[nondetChoice("list"+string(rune('0'+i)), len(m.dirs))]
		list = append(list, d)
		paths = append(paths, d.path)
	}
	return list, paths
}

func H_C01_precedence() {
	vThirdFile = true
	defer func() { vThirdFile = false }()
	m := vDrawFS(vparam("NDIRS"), false, vparam("NDEVS"))
	defer vCleanupFS()
	list, paths := vDrawDirList(m, vparam("NLIST"))
	c := newCache(WithAutoRefresh(false), WithSpecDirs(paths...))
	// histories: whatever an earlier refresh left behind must not matter
	if nondetBool("stale") {
		c.devices["v0/c=stale"] = &Device{}
		c.errors["/stale.json"] = []error{vNewErr("stale")}
		c.specs["stale"] = nil
	}
	_ = c.Refresh()
	vassert("stale-entries-gone", c.GetDevice("v0/c=stale") == nil && len(c.GetVendorSpecs("stale")) == 0)
	vCheckResolution(c, m, list)
}

// ---- C13

func vCheckErrors(c *Cache, list []*vDir, rerr error) {
	errs := c.GetErrors()
	anyBad := false
	allFine := true
	for _, d := range list {
		if d.state != vDirOK && d.state != vDirMissing {
			allFine = false
		}
		if d.state != vDirOK {
			continue
		}
		for _, f := range d.files {
			if f.state == vFileInvalid || f.state == vFileVanish || f.state == vFileDangle {
				// vanished files and dangling links are Spec-named entries that cannot be loaded
				anyBad = true
				allFine = false
				_, has := errs[d.path+"/"+f.name]
				if f.state == vFileInvalid || f.state == vFileDangle {
					vreach("invalid-file")
					vassert("failing-spec-file-is-reported", has)
				}
			}
		}
	}
	if anyBad {
		// an explicit refresh returns an error whenever a Spec file is in error
		invalid := false
		for _, d := range list {
			if d.state == vDirOK {
				for _, f := range d.files {
					if f.state == vFileInvalid {
						invalid = true
					}
				}
			}
		}
		if invalid {
			vassert("refresh-reports-error-when-a-spec-file-is-in-error", rerr != nil)
		}
	}
	if allFine {
		// no conflicts either?
		conflict := false
		for _, d := range list {
			seen := map[string]bool{}
			for _, df := range vDefsAt(d) {
				if seen[df.name] {
					conflict = true
				}
				seen[df.name] = true
			}
		}
		if !conflict {
			vreach("all-fine")
			vassert("refresh-returns-nil-when-everything-is-readable-and-valid", rerr == nil)
			vassert("no-error-entries-when-everything-is-valid", len(errs) == 0)
		}
	}
}

func H_C13_faults() {
	m := vDrawFS(vparam("NDIRS"), true, 1)
	defer vCleanupFS()
	list, paths := vDrawDirList(m, vparam("NLIST"))
	c := newCache(WithAutoRefresh(false), WithSpecDirs(paths...))
	rerr := c.Refresh()
	// the resolution oracle, computed per directory from the valid, reachable files alone, still holds
	vCheckResolution(c, m, list)
	vCheckErrors(c, list, rerr)
}

// a directory-level error (a file at the path, a file as an ancestor, an unreadable directory) disappears from every
// error report at the first refresh after the directory has become a readable directory of valid Specs
func H_C13_dirrepair() {
	m := vDrawFS(1, true, 1)
	defer vCleanupFS()
	d := m.dirs[0]
	vassume(d.state != vDirOK)
	was := d.state
	c := newCache(WithAutoRefresh(false), WithSpecDirs(d.path)) // manual refresh: nothing but Refresh() may clear the entry
	_ = c.Refresh()
	// repair: the path becomes a readable directory (empty: nothing in it can be in error)
	d.state = vDirOK
	if vnative() {
		os.Chmod(d.path, 0o755)
		if was == vDirNotDir {
			os.Remove(d.path)
		}
		if was == vDirAncestor {
			os.Remove(filepath.Dir(d.path))
		}
		os.MkdirAll(d.path, 0o755)
	}
	rerr := c.Refresh()
	vreach("directory-repaired")
	vassert("refresh-ok-after-directory-repair", rerr == nil)
	vassert("no-error-entries-after-directory-repair", len(c.GetErrors()) == 0)
	rerr = c.Refresh()
	vassert("still-no-error-entries-at-the-next-refresh", rerr == nil && len(c.GetErrors()) == 0)
}

// an error entry disappears at the first refresh after its cause is gone
func H_C13_repair() {
	m := vDrawFS(1, false, 1)
	defer vCleanupFS()
	d := m.dirs[0]
	vassume(d.state == vDirOK && d.files[0].state == vFileInvalid)
	c := newCache(WithAutoRefresh(false), WithSpecDirs(d.path))
	_ = c.Refresh()
	_, had := c.GetErrors()[d.path+"/a.json"]
	vassert("invalid-file-reported-before-repair", had)
	// repair: the file becomes valid
	d.files[0].state = vFileValid
	if vnative() {
		vRewriteValid(d, d.files[0])
	}
	rerr := c.Refresh()
	_, has := c.GetErrors()[d.path+"/a.json"]
	vreach("repaired")
	conflict := d.files[1].state == vFileValid && d.files[1].vendor == d.files[0].vendor && d.files[1].devs[0] == d.files[0].devs[0]
	if !conflict {
		vassert("error-entry-gone-after-repair", !has)
		if d.files[1].state != vFileInvalid {
			vassert("refresh-ok-after-repair", rerr == nil)
		}
	}
}
