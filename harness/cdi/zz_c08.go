package cdi

import (
	"os"

	"sigs.k8s.io/yaml"
	"tags.cncf.io/container-device-interface/pkg/parser"
	cdi "tags.cncf.io/container-device-interface/specs-go"
)

// C08 — no untrusted input can crash the library. Every harness of the other properties carries the implicit
// panic obligations; the harnesses here widen the inputs to "whatever a decoder may hand over".

func init() {
	vregister("H_C08_readspec", H_C08_readspec)
	vregister("H_C08_names", H_C08_names)
}

// ---- file and decoder stubs: the decoders return an arbitrary error, no document at all, or an arbitrary Spec value

func stubReadFile(name string) ([]byte, error) {
	switch nondetIntRange("readfile", 0, 2) {
	case 0:
		return nil, vPathErr("open", os.ErrNotExist)
	case 1:
		return nil, vPathErr("read", os.ErrPermission)
	}
	n := nondetIntRange("datalen", 0, 2)
	data := []byte{nondetU8("data0"), nondetU8("data1")}
	return data[:n], nil
}

var vDecoded *cdi.Spec

func stubUnmarshalStrict(data []byte, obj interface{}, opts ...yaml.JSONOpt) error {
	p := obj.(**cdi.Spec)
	switch nondetIntRange("decode", 0, 2) {
	case 0:
		return vPathErr("decode", os.ErrInvalid)
	case 1:
		// "null", "~", "---", a comment-only or blank file: no error and no document
		return nil
	}
	*p = vDecoded
	return nil
}

func H_C08_readspec() {
	// an arbitrary decoded value, including nil entries and empty strings everywhere
	m := vDrawEdits("e.")
	raw := &cdi.Spec{Version: "0.7.0", Kind: nondetStringU("kind", 4)}
	raw.ContainerEdits = m.e
	if nondetBool("hasdev") {
		raw.Devices = []cdi.Device{{Name: nondetStringU("name", 2), ContainerEdits: vDrawEdits("d.").e}}
	}
	vDecoded = raw
	spec, err := ReadSpec("/etc/cdi/a.yaml", 0)
	vreach("readspec-returned")
	vassert("spec-xor-error", (spec == nil) != (err == nil))
	if err == nil {
		vreach("readspec-ok")
	}
}

func H_C08_names() {
	s := nondetString("s", vparam("N"))
	_ = parser.IsQualifiedName(s)
	_, _, _, _ = parser.ParseQualifiedName(s)
	_, _, _ = parser.ParseDevice(s)
	_, _ = parser.ParseQualifier(s)
	_ = parser.ValidateVendorName(s)
	_ = parser.ValidateClassName(s)
	_ = parser.ValidateDeviceName(s)
	_, _ = AnnotationValue([]string{s})
	_, _ = AnnotationKey(s, "d")
	_, _ = AnnotationKey("p", s)
	_, _, _ = ParseAnnotations(map[string]string{"cdi.k8s.io/x": s})
	_, _ = GenerateNameForSpec(&cdi.Spec{Kind: s})
	_, _ = GenerateNameForTransientSpec(&cdi.Spec{Kind: "v/c"}, s)
	vreach("names-returned")
}
