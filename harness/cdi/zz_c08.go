package cdi

import (
	"os"

	"sigs.k8s.io/yaml"
	"tags.cncf.io/container-device-interface/pkg/parser"
	cdi "tags.cncf.io/container-device-interface/specs-go"
)

// C08 — no untrusted input can crash the library. Every harness of the other properties carries the implicit
// panic obligations; the harnesses here widen the inputs to "whatever a decoder may hand over".

func init() {
	vregister("H_C08_readspec", H_C08_readspec)
	vregister("H_C08_names", H_C08_names)
}

// ---- file and decoder stubs: the decoders return an arbitrary error, no document at all, or an arbitrary Spec value

func stubReadFile(name string) ([]byte, error) {
	switch nondetIntRange("readfile", 0, 2) {
	case 0:
		return nil, vPathErr("open", os.ErrNotExist)
	case 1:
		return nil, vPathErr("read", os.ErrPermission)
	}
	n := nondetIntRange("datalen", 0, 2)
	data := []byte{nondetU8("data0"), nondetU8("data1")}
	return data[:n], nil
}

var vDecoded *cdi.Spec

func stubUnmarshalStrict(data []byte, obj interface{}, opts ...yaml.JSONOpt) error {
	p := obj.(**cdi.Spec)
	switch nondetIntRange("decode", 0, 2) {
	case 0:
		return vPathErr("decode", os.ErrInvalid)
	case 1:
		// "null", "~", "---", a comment-only or blank file: no error and no document
		return nil
	}
	*p = vDecoded
	return nil
}

func H_C08_readspec() {
	// an arbitrary decoded value, including nil entries and empty strings everywhere
	m := vDrawEdits("e.")
	raw := &cdi.Spec{Version: "0.7.0", Kind: nondetStringU("kind", 4)}
	raw.ContainerEdits = m.e
	if nondetBool("hasdev") {
		raw.Devices = []cdi.Device{{Name: nondetStringU("name", 2), ContainerEdits: vDrawEdits("d.").e}}
	}
	vDecoded = raw
	spec, err := ReadSpec("/etc/cdi/a.yaml", 0)
	vreach("readspec-returned")
	vassert("spec-xor-error", (spec == nil) != (err == nil))
	if err == nil {
		vreach("readspec-ok")
	}
}

func H_C08_names() {
	s := nondetString("s", vparam("N"))
	// one entry point per case: the functions are pure, and separate cases keep the path conditions apart
	switch nondetChoice("fn", 13) {
	case 0:
		_ = parser.IsQualifiedName(s)
	case 1:
		_, _, _, _ = parser.ParseQualifiedName(s)
	case 2:
		_, _, _ = parser.ParseDevice(s)
	case 3:
		_, _ = parser.ParseQualifier(s)
	case 4:
		_ = parser.ValidateVendorName(s)
	case 5:
		_ = parser.ValidateClassName(s)
	case 6:
		_ = parser.ValidateDeviceName(s)
	case 7:
		_, _ = AnnotationValue([]string{s})
	case 8:
		_, _ = AnnotationKey(s, "d")
	case 9:
		_, _ = AnnotationKey("p", s)
	case 10:
		if len(s) <= 6 { // splitting on commas multiplies paths; longer values are H_C15_parse's subject at its own bound
			_, _, _ = ParseAnnotations(map[string]string{"cdi.k8s.io/x": s})
		}
	case 11:
		_, _ = GenerateNameForSpec(&cdi.Spec{Kind: s})
	case 12:
		_, _ = GenerateNameForTransientSpec(&cdi.Spec{Kind: "v/c"}, s)
	}
	vreach("names-returned")
}
