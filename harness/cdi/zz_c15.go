package cdi

import (
	"strings"

	"tags.cncf.io/container-device-interface/internal/validation/k8s"
)

// C15 — CDI annotations written by the helper parse back to the same request.

const (
	vC15NameRe = `^[A-Za-z0-9]([A-Za-z0-9_.-]*[A-Za-z0-9])?$`
	vC15QualRe = `^[A-Za-z]([A-Za-z0-9_.-]*[A-Za-z0-9])?/[A-Za-z]([A-Za-z0-9_.-]*[A-Za-z0-9])?=[A-Za-z0-9]([A-Za-z0-9_.:-]*[A-Za-z0-9])?$`
)

func init() {
	vregister("H_C15_key", H_C15_key)
	vregister("H_C15_update", H_C15_update)
	vregister("H_C15_parse", H_C15_parse)
	vregister("H_C15_comma", H_C15_comma)
}

// a single device string that contains commas (e.g. two qualified names joined by one) is not a device name:
// the request must be refused and the map left alone - otherwise it would parse back as several devices
func H_C15_comma() {
	a := nondetString("a", vparam("PART"))
	b := nondetString("b", vparam("PART"))
	if nondetChoice("exactly-one-comma", 2) == 1 {
		// the case of exactly one comma separately: it stays decidable for code that splits the joined value again
		for i := 0; i < len(a); i++ {
			vassume(a[i] != ',')
		}
		for i := 0; i < len(b); i++ {
			vassume(b[i] != ',')
		}
	}
	d := a + "," + b
	ann := map[string]string{"foreign.io/key": "x"}
	tok := vfreeze(ann)
	res, err := UpdateAnnotations(ann, "vendor.class", "dev0", []string{d})
	vassert("comma-device-refused-iff-not-qualified", (err == nil) == vregex(vC15QualRe, d))
	if err != nil {
		vreach("comma-refused")
		vunchanged(tok, "comma-refused-leaves-map-intact")
		return
	}
	// (unreachable on a correct tree: a string with a comma is never a qualified name)
	_, got, perr := ParseAnnotations(map[string]string{"cdi.k8s.io/vendor.class_dev0": res["cdi.k8s.io/vendor.class_dev0"]})
	vassert("comma-parse-back-exact", perr == nil && len(got) == 1 && got[0] == d)
}

// lengths around the 63 character limit and the small ones
var vC15Lens = []int{0, 1, 2, 3, 30, 31, 32, 59, 60, 61, 62, 63}

func vC15Name(plugin, deviceID string) string {
	b := []byte(deviceID)
	for i := range b {
		if b[i] == '/' {
			b[i] = '_'
		}
	}
	return plugin + "_" + string(b)
}

func H_C15_key() {
	var p, d int
	if vparam("ALLPAIRS") == 1 {
		p = nondetLen("p", 0, 66)
		d = nondetLen("d", 0, 66)
	} else {
		p = vC15Lens[nondetChoice("pi", len(vC15Lens))]
		d = vC15Lens[nondetChoice("di", len(vC15Lens))]
	}
	if p+d+1 > 66 {
		return
	}
	if ms := vparam("MINSUM"); ms > 0 && p+d+1 < ms && (p > 6 || d > 6) {
		return // thorough: every pair of short parts and every pair whose total is near the 63-character limit
	}
	// short strings range over all 256 byte values; long ones over all 7-bit values (stated bound)
	var plugin, deviceID string
	if p <= 4 {
		plugin = nondetStringN("plugin", p)
	} else {
		plugin = nondetASCII("plugin", p)
	}
	if d <= 4 {
		deviceID = nondetStringN("deviceID", d)
	} else {
		deviceID = nondetASCII("deviceID", d)
	}
	key, err := AnnotationKey(plugin, deviceID)
	name := vC15Name(plugin, deviceID)
	want := p > 0 && d > 0 && len(name) <= 63 && vregex(vC15NameRe, name)
	vassert("key-ok-iff-legal", (err == nil) == want)
	if err == nil {
		vreach("key-ok")
		vassert("key-is-prefix-plus-name", key == "cdi.k8s.io/"+name)
		// legal Kubernetes annotation key: DNS-subdomain prefix "/" name of at most 63 characters in the k8s name grammar
		vassert("key-legal-k8s-oracle", strings.HasPrefix(key, "cdi.k8s.io/") && len(key)-len("cdi.k8s.io/") <= 63 && vregex(`^cdi\.k8s\.io/([A-Za-z0-9][-A-Za-z0-9_.]*)?[A-Za-z0-9]$`, key))
		vassert("key-legal-k8s-vendored", len(k8s.IsQualifiedName(key)) == 0)
	} else {
		vreach("key-rejected")
		vassert("key-empty-on-error", key == "")
	}
}

func H_C15_update() {
	plugin := nondetStringU("plugin", 2)
	deviceID := nondetStringU("deviceID", 2)
	ndev := nondetLen("ndev", 1, vparam("NDEV"))
	devs := make([]string, ndev)
	for i := range devs {
		devs[i] = nondetString("dev"+string(rune('0'+i)), vparam("DEVLEN"))
	}
	// initial map: nil, empty, one foreign key, one CDI key (may collide with the generated one), both
	var ann map[string]string
	kind := nondetChoice("initial", 5)
	cdiKey := "cdi.k8s.io/" + nondetStringU("oldname", 5)
	switch kind {
	case 1:
		ann = map[string]string{}
	case 2:
		ann = map[string]string{"foreign.io/key": "x"}
	case 3:
		ann = map[string]string{cdiKey: "old"}
	case 4:
		ann = map[string]string{"foreign.io/key": "x", cdiKey: "old"}
	}
	n0 := len(ann)
	tok := vfreeze(ann)
	res, err := UpdateAnnotations(ann, plugin, deviceID, devs)
	key, kerr := AnnotationKey(plugin, deviceID)
	allQualified := true
	for _, dv := range devs {
		if !vregex(vC15QualRe, dv) {
			allQualified = false
		}
	}
	_, used := "", false
	if kerr == nil && kind >= 3 && key == cdiKey {
		used = true
	}
	vassert("update-ok-iff", (err == nil) == (kerr == nil && !used && allQualified))
	if err != nil {
		vreach("update-failed")
		vunchanged(tok, "failed-update-leaves-map-intact")
		vassert("failed-update-returns-argument", len(res) == n0 && (ann == nil) == (res == nil))
		return
	}
	vreach("update-ok")
	vassert("one-key-added", len(res) == n0+1)
	val, ok := res[key]
	vassert("generated-key-present", ok)
	if kind == 2 || kind == 4 {
		vassert("foreign-kept", res["foreign.io/key"] == "x")
	}
	if kind >= 3 {
		vassert("old-cdi-kept", res[cdiKey] == "old")
	}
	// parses back to exactly the devices, in order
	keys, got, perr := ParseAnnotations(map[string]string{key: val})
	vassert("parse-back-no-error", perr == nil)
	vassert("parse-back-key", len(keys) == 1 && keys[0] == key)
	vassert("parse-back-count", len(got) == len(devs))
	if len(got) == len(devs) {
		for i := range devs {
			vassert("parse-back-device", got[i] == devs[i])
		}
	}
}

func H_C15_parse() {
	// two entries; each key has or has not the CDI prefix (same length, the solver decides)
	k1 := nondetStringN("k1", 12)
	k2 := nondetStringN("k2", 12)
	n := nondetLen("entries", 0, 2)
	v1, v2 := "", ""
	if n >= 1 {
		v1 = nondetString("v1", vparam("VLEN"))
	}
	if n >= 2 {
		v2 = nondetString("v2", vparam("VLEN"))
	}
	vassume(k1 != k2)
	m := map[string]string{}
	if n >= 1 {
		m[k1] = v1
	}
	if n >= 2 {
		m[k2] = v2
	}
	vmapOrder(nondetChoice("maporder", 2))
	keys, devs, err := ParseAnnotations(m)
	c1 := n >= 1 && strings.HasPrefix(k1, "cdi.k8s.io/")
	c2 := n >= 2 && strings.HasPrefix(k2, "cdi.k8s.io/")
	ok1 := !c1 || vAllQualified(v1)
	ok2 := !c2 || vAllQualified(v2)
	vassert("parse-error-iff-unqualified", (err == nil) == (ok1 && ok2))
	if err != nil {
		vreach("parse-error")
		vassert("parse-error-empty-results", len(keys) == 0 && len(devs) == 0)
		return
	}
	vreach("parse-ok")
	nk := 0
	if c1 {
		nk++
	}
	if c2 {
		nk++
	}
	vassert("parse-keys-are-cdi-keys", len(keys) == nk)
	for _, k := range keys {
		vassert("parse-key-member", (c1 && k == k1) || (c2 && k == k2))
	}
	if c1 && !c2 {
		vreach("one-cdi-key")
		vassert("parse-devices-in-order", strings.Join(devs, ",") == v1)
	}
	if c1 && c2 {
		vreach("two-cdi-keys")
		j := strings.Join(devs, ",")
		vassert("parse-devices-per-key-in-order", j == v1+","+v2 || j == v2+","+v1)
	}
}

// every comma separated piece is a qualified name (oracle: the C07 grammar)
func vAllQualified(v string) bool {
	start := 0
	for i := 0; i <= len(v); i++ {
		if i == len(v) || v[i] == ',' {
			if !vregex(vC15QualRe, v[start:i]) {
				return false
			}
			start = i + 1
		}
	}
	return true
}
