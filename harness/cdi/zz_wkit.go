package cdi

// A model of the file-system operations used by the Spec writer (C10, C16): every operation may fail, writes may be
// short, rename replaces atomically. The disk state is observable after every operation, which is where a crash,
// a kill or a concurrent reader would see it.

import (
	"os"
	"path/filepath"
	"strings"
)

type vEnt struct {
	exists  bool
	isDir   bool
	old     bool // complete previous content
	written int  // bytes of new content present
	total   int  // bytes of new content intended
	stale   bool // opened for writing without truncation while it held other data: old bytes may follow the new ones
}

var (
	vDisk      map[string]*vEnt
	vOpen      map[*os.File]string // open file -> path
	vTouched   []string            // every path created, written, renamed to/from, or removed
	vMkdirs    []string
	vInvOK     bool // the publication invariant held after every operation so far
	vLastDir   string
	vFdCounter uintptr
)

func vResetDisk(lastDir string, dirExists bool) {
	vDisk = map[string]*vEnt{}
	vOpen = map[*os.File]string{}
	vNames = map[*os.File]string{}
	vTouched = nil
	vMkdirs = nil
	vInvOK = true
	vLastDir = lastDir
	vFdCounter = 3
	if dirExists {
		vDisk[lastDir] = &vEnt{exists: true, isDir: true}
	}
}

func vSpecExt(p string) bool {
	e := filepath.Ext(p)
	return e == ".json" || e == ".yaml"
}

func vComplete(e *vEnt) bool { return !e.stale && (e.old || (e.total > 0 && e.written == e.total)) }

// the invariant a reader of the directory relies on at every instant
func vObserve() {
	for p, e := range vDisk {
		if e.exists && !e.isDir && vSpecExt(p) && !vComplete(e) {
			vInvOK = false
		}
	}
}

// vFaulted: some operation of the writer's file system was made to fail since the harness last cleared it
var vFaulted bool

func vFail(op string) bool {
	if nondetBool("fail." + op) {
		vFaulted = true
		return true
	}
	return false
}

func stubMkdirAll(path string, perm os.FileMode) error {
	vMkdirs = append(vMkdirs, path)
	if e, ok := vDisk[path]; ok && e.exists {
		if e.isDir {
			return nil
		}
		return vPathErr("mkdir", os.ErrExist)
	}
	if vFail("mkdir") {
		return vPathErr("mkdir", os.ErrPermission)
	}
	vDisk[path] = &vEnt{exists: true, isDir: true}
	vObserve()
	return nil
}

func stubCreateTemp(dir, pattern string) (*os.File, error) {
	if e, ok := vDisk[dir]; !ok || !e.exists || !e.isDir || vFail("createtemp") {
		return nil, vPathErr("open", os.ErrNotExist)
	}
	prefix, suffix := pattern, ""
	if i := strings.LastIndex(pattern, "*"); i >= 0 {
		prefix, suffix = pattern[:i], pattern[i+1:]
	}
	digit := nondetStringN("tmpdigit", 1)
	vassume(digit[0] >= '0' && digit[0] <= '9')
	p := filepath.Join(dir, prefix+digit+suffix)
	f := &os.File{}
	vOpen[f] = p
	vNames[f] = p
	vDisk[p] = &vEnt{exists: true}
	vTouched = append(vTouched, p)
	vObserve()
	return f, nil
}

func stubFileWrite(f *os.File, b []byte) (int, error) {
	p := vOpen[f]
	e := vDisk[p]
	if e == nil {
		return 0, vPathErr("write", os.ErrClosed)
	}
	e.old = false
	e.total += len(b)
	vTouched = append(vTouched, p)
	if vFail("write") {
		// short write: disk full, quota, I/O error
		n := nondetIntRange("short", 0, len(b))
		if n == len(b) && len(b) > 0 {
			n = len(b) - 1
		}
		e.written += n
		vObserve()
		return n, vPathErr("write", os.ErrInvalid)
	}
	e.written += len(b)
	vObserve()
	return len(b), nil
}

// os.OpenFile / os.Create / os.WriteFile: in-place (re)writing is representable - and fails the invariant when it
// happens under a Spec name or on a file that is then published. A non-Spec-named file may be a leftover of an earlier
// interrupted write (arbitrary previous history of the directory).
func stubOpenFile(name string, flag int, perm os.FileMode) (*os.File, error) {
	e, ok := vDisk[name]
	if !ok && !vSpecExt(name) && nondetBool("leftover-file") {
		if d, dok := vDisk[filepath.Dir(name)]; dok && d.exists {
			e = &vEnt{exists: true, written: 1, total: 2}
			vDisk[name] = e
			ok = true
		}
	}
	if !ok || !e.exists {
		if flag&os.O_CREATE == 0 || vFail("openfile") {
			return nil, vPathErr("open", os.ErrNotExist)
		}
		if d, dok := vDisk[filepath.Dir(name)]; !dok || !d.exists {
			return nil, vPathErr("open", os.ErrNotExist)
		}
		e = &vEnt{exists: true}
		vDisk[name] = e
	} else if flag&os.O_EXCL != 0 && flag&os.O_CREATE != 0 {
		return nil, vPathErr("open", os.ErrExist)
	} else if flag&os.O_TRUNC != 0 {
		e.old, e.written, e.total, e.stale = false, 0, 0, false
	} else if flag&(os.O_WRONLY|os.O_RDWR) != 0 && (e.old || e.written > 0) {
		e.stale = true
	}
	f := &os.File{}
	vOpen[f] = name
	vNames[f] = name
	vTouched = append(vTouched, name)
	vObserve()
	return f, nil
}

func stubCreate(name string) (*os.File, error) {
	return stubOpenFile(name, os.O_RDWR|os.O_CREATE|os.O_TRUNC, 0o666)
}

func stubWriteFile(name string, data []byte, perm os.FileMode) error {
	f, err := stubOpenFile(name, os.O_WRONLY|os.O_CREATE|os.O_TRUNC, perm)
	if err != nil {
		return err
	}
	_, err = stubFileWrite(f, data)
	if cerr := stubFileClose(f); err == nil {
		err = cerr
	}
	return err
}

func stubFileClose(f *os.File) error {
	delete(vOpen, f)
	if vFail("close") {
		return vPathErr("close", os.ErrInvalid)
	}
	return nil
}

var vNames = map[*os.File]string{}

func stubFileName(f *os.File) string { return vNames[f] }

func stubFileFd(f *os.File) uintptr { return 7 }

func stubOpen(name string) (*os.File, error) {
	if e, ok := vDisk[name]; !ok || !e.exists || vFail("open") {
		return nil, vPathErr("open", os.ErrNotExist)
	}
	f := &os.File{}
	vOpen[f] = name
	vNames[f] = name
	return f, nil
}

const vRenameNoReplace = 1

// renameat2 relative to the directory opened last (the writer opens exactly the Spec directory)
func stubRenameat2(olddirfd int, oldpath string, newdirfd int, newpath string, flags uint) error {
	src := filepath.Join(vLastDir, oldpath)
	dst := filepath.Join(vLastDir, newpath)
	vTouched = append(vTouched, src, dst)
	se, ok := vDisk[src]
	if !ok || !se.exists {
		return vPathErr("rename", os.ErrNotExist)
	}
	if de, ok := vDisk[dst]; ok && de.exists && flags&vRenameNoReplace != 0 {
		return vPathErr("rename", os.ErrExist)
	}
	if vFail("rename") {
		return vPathErr("rename", os.ErrPermission)
	}
	// the one operation assumed atomic: the target switches from its previous content to the source's content
	vDisk[dst] = se
	delete(vDisk, src)
	vObserve()
	return nil
}

func stubRemove(name string) error {
	vTouched = append(vTouched, name)
	e, ok := vDisk[name]
	if !ok || !e.exists {
		return vPathErr("remove", os.ErrNotExist)
	}
	if vFail("remove") {
		return vPathErr("remove", os.ErrPermission)
	}
	if e.isDir {
		// unlink(2)/rmdir(2): a directory that still has entries is not removed
		for p, c := range vDisk {
			if c.exists && filepath.Dir(p) == name {
				return vPathErr("remove", vENOTEMPTY)
			}
		}
	}
	delete(vDisk, name)
	vObserve()
	return nil
}

var vENOTEMPTY = vNewErr("directory not empty")

// os.RemoveAll: removes the path and, if it is a directory, everything below it; a missing path is not an error
func stubRemoveAll(name string) error {
	for p, e := range vDisk {
		if e.exists && (p == name || strings.HasPrefix(p, name+"/")) {
			vTouched = append(vTouched, p)
			delete(vDisk, p)
		}
	}
	vObserve()
	return nil
}

func vMarshal(kind string) ([]byte, error) {
	if vFail("marshal") {
		return nil, vNewErr("marshal failed")
	}
	n := nondetLen("datalen."+kind, 1, vDataMax)
	data := make([]byte, n)
	for i := range data {
		data[i] = nondetU8("data" + string(rune('0'+i)))
	}
	return data, nil
}

func stubJSONMarshal(v interface{}) ([]byte, error) { vJSONCalls++; return vMarshal("json") }
func stubYAMLMarshal(v interface{}) ([]byte, error) { vYAMLCalls++; return vMarshal("yaml") }

var vJSONCalls, vYAMLCalls int

// longest marshal output explored (bytes); harnesses may lower it for their quick tier
var vDataMax = 3
