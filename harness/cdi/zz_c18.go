package cdi

import (
	"os"

	cdi "tags.cncf.io/container-device-interface/specs-go"
)

// C18 — every Spec the library accepts also passes the builtin schema.
// vSchemaAccepts is GENERATED on every run from the shipped schema files and the struct tags (gen/schema2go.py).

func init() { vregister("H_C18_accepts", H_C18_accepts) }

func vDrawEdits18(p string) *vEditsModel {
	m := vDrawEdits(p)
	for _, dn := range m.e.DeviceNodes {
		if dn == nil {
			continue
		}
		dn.Major = nondetI64(p + "major")
		dn.Minor = nondetI64(p + "minor")
		dn.HostPath = nondetStringU(p+"nhost", 1)
		if nondetBool(p + "hasuid") {
			u := nondetU32(p + "uid")
			dn.UID = &u
		}
		if nondetBool(p + "hasgid") {
			g := nondetU32(p + "ngid")
			dn.GID = &g
		}
		if nondetBool(p + "hasmode") {
			fm := os.FileMode(nondetU32(p + "mode"))
			dn.FileMode = &fm
		}
	}
	for _, h := range m.e.Hooks {
		if h == nil {
			continue
		}
		if nondetBool(p + "hastimeout") {
			t := nondetInt(p + "timeout")
			vassume(t >= 0 && t <= 4294967295) // the statement: hook timeouts within 0..2^32-1
			h.Timeout = &t
		}
		if nondetBool(p + "hasargs") {
			h.Args = []string{nondetStringU(p+"arg", 1)}
		}
	}
	for _, mt := range m.e.Mounts {
		if mt == nil {
			continue
		}
		mt.Type = nondetStringU(p+"mtype", 1)
		switch nondetIntRange(p+"mopts", 0, 2) {
		case 1:
			mt.Options = []string{}
		case 2:
			mt.Options = []string{nondetStringU(p+"mopt", 1)}
		}
	}
	if m.e.IntelRdt != nil {
		m.e.IntelRdt.EnableCMT = nondetBool(p + "cmt")
		m.e.IntelRdt.L3CacheSchema = nondetStringU(p+"l3", 1)
	}
	return m
}

func H_C18_accepts() {
	versions := []string{"0.3.0", "0.5.0", "0.7.0", "1.0.0"}
	raw := &cdi.Spec{Version: versions[nondetChoice("version", len(versions))]}
	raw.Kind = nondetStringU("kind", vparam("KIND"))
	switch nondetChoice("s.ann", 3) {
	case 1:
		raw.Annotations = map[string]string{}
	case 2:
		k := nondetString("s.annkey", 2)
		vIsASCII(k)
		raw.Annotations = map[string]string{k: "v"}
	}
	raw.ContainerEdits = vDrawEdits18("s.").e
	n := nondetLen("ndev", 0, vparam("NDEV"))
	for i := 0; i < n; i++ {
		p := "d" + string(rune('0'+i)) + "."
		d := cdi.Device{Name: nondetStringU(p+"name", 2), ContainerEdits: vDrawEdits18(p).e}
		if nondetChoice(p+"hasann", 2) == 1 {
			k := nondetString(p+"annkey", 2)
			vIsASCII(k)
			d.Annotations = map[string]string{k: "v"}
		}
		raw.Devices = append(raw.Devices, d)
	}
	if nondetBool("nil-devices-slice") && n == 0 {
		raw.Devices = nil
	} else if n == 0 {
		raw.Devices = []cdi.Device{}
	}
	_, err := newSpec(raw, "/etc/cdi/x.json", 0)
	if err != nil {
		vreach("library-rejects")
		return
	}
	vreach("library-accepts")
	vassert("library-valid-spec-passes-the-builtin-schema", vSchemaAccepts(raw))
}
