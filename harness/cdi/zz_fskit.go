package cdi

// A symbolic model of the Spec directories (C01, C13, C16, C20): directory states, entries, what each Spec file holds.
// In the engine the model is served by stubs behind os.Lstat / filepath.readDirNames / ReadSpec;
// natively (replay) the same model is materialised in a temporary directory and the real code runs on it.

import (
	"io/fs"
	"os"
	"path/filepath"
	"sort"
	"strings"
	"time"

	cdi "tags.cncf.io/container-device-interface/specs-go"
)

const (
	vDirOK       = 0 // exists
	vDirMissing  = 1
	vDirNotDir   = 2 // a regular file sits at the path
	vDirAncestor = 3 // a regular file is an ancestor of the path (Lstat fails with ENOTDIR)
	vDirUnread   = 4 // listing fails (EACCES)
)

const (
	vFileAbsent  = 0
	vFileValid   = 1
	vFileInvalid = 2 // syntax/semantic error, or empty file: ReadSpec fails
	vFileVanish  = 3 // listed, but gone when read (ReadSpec: not-exist)
	vFileDangle  = 4 // dangling symlink: Lstat succeeds (a link), ReadSpec fails with not-exist
)

type vFile struct {
	name   string
	state  int
	vendor string   // "v0" / "v1"
	devs   []string // device names
}

type vDir struct {
	path  string
	state int
	files []*vFile // Spec-named files (a.json, b.yaml)
	noise bool     // also holds d.txt, e.json.tmp, c.yml and a sub-directory "sub" with a valid x.json inside
}

type vFS struct {
	root string
	dirs []*vDir
}

var vfs *vFS

// vThirdFile: the first directory also holds c.json (set by harnesses that want three-way conflicts)
var vThirdFile bool

func vAlnum(b byte) bool {
	return (b >= 'a' && b <= 'z') || (b >= 'A' && b <= 'Z') || (b >= '0' && b <= '9')
}

// vDrawFS draws a model with ndirs physical directories. faults: allow the C13 fault states.
func vDrawFS(ndirs int, faults bool, maxDevs int) *vFS {
	m := &vFS{root: "/vfs"}
	for i := 0; i < ndirs; i++ {
		d := &vDir{path: m.root + "/d" + string(rune('0'+i))}
		p := "d" + string(rune('0'+i)) + "."
		// structure (which directories/files exist, in which state) is a concrete case split: file names and paths
		// stay concrete strings; what the files define (vendor, device names) is symbolic
		if faults {
			d.state = nondetChoice(p+"state", 5)
		} else {
			d.state = nondetChoice(p+"state", 2)
		}
		if d.state == vDirAncestor {
			d.path = m.root + "/file" + string(rune('0'+i)) + "/sub"
		}
		d.noise = i == 0 && nondetChoice(p+"noise", 2) == 1
		names := []string{"a.json", "b.yaml"}
		if i == 0 && vThirdFile {
			names = append(names, "c.json") // a third Spec file in the first directory: three-way conflicts
		}
		for j, name := range names {
			f := &vFile{name: name}
			q := p + string(rune('a'+j)) + "."
			if i >= 2 && j == 1 {
				// directories beyond the second hold a single Spec-named file (keeps the case tree tractable)
				f.state = vFileAbsent
				f.vendor = "v0"
				f.devs = []string{"unused"}
				d.files = append(d.files, f)
				continue
			}
			if d.state != vDirOK {
				f.state = vFileAbsent
			} else if faults {
				f.state = nondetChoice(q+"state", 5)
			} else {
				f.state = nondetChoice(q+"state", 3)
			}
			if nondetBool(q + "vendor") {
				f.vendor = "v1"
			} else {
				f.vendor = "v0"
			}
			nd := 1
			if maxDevs > 1 && nondetBool(q+"two") {
				nd = 2
			}
			for k := 0; k < nd; k++ {
				n := nondetStringN(q+"dev"+string(rune('0'+k)), 1)
				vassume(vAlnum(n[0]))
				for _, o := range f.devs {
					vassume(o != n) // a file with duplicate device names is an invalid file; that is C05's subject
				}
				f.devs = append(f.devs, n)
			}
			d.files = append(d.files, f)
		}
		m.dirs = append(m.dirs, d)
	}
	if vnative() {
		vMaterialise(m)
	}
	vfs = m
	return m
}

func (m *vFS) dirByPath(p string) *vDir {
	for _, d := range m.dirs {
		if d.path == p {
			return d
		}
	}
	return nil
}

// vScanGen counts directory listings: what a file "contains" may carry the generation in which it was read, so that a
// harness can tell whether two results stem from one scan (one snapshot of the directory) or from two
var vScanGen int
var vTagGen bool

// vLateDev names a device that the Spec files contain only from the second directory listing on (the directory content
// "switches" from a state without it to a state with it between the first and the second scan)
var vLateDev string

func vRawSpec(f *vFile) *cdi.Spec {
	raw := &cdi.Spec{Version: "0.6.0", Kind: f.vendor + "/c"}
	for _, n := range f.devs {
		if vTagGen && n == vLateDev && vScanGen < 2 {
			continue
		}
		env := []string{"DEV=" + n}
		if vTagGen {
			env = []string{"GEN" + n + "=" + string(rune('0'+vScanGen))}
		}
		raw.Devices = append(raw.Devices, cdi.Device{Name: n, ContainerEdits: cdi.ContainerEdits{Env: env}})
	}
	return raw
}

// ---- engine-side stubs

type vFileInfo struct {
	name string
	dir  bool
	link bool
}

func (i *vFileInfo) Name() string { return i.name }
func (i *vFileInfo) Size() int64  { return 0 }
func (i *vFileInfo) Mode() fs.FileMode {
	if i.link {
		return fs.ModeSymlink | 0o777
	}
	if i.dir {
		return fs.ModeDir | 0o755
	}
	return 0o644
}
func (i *vFileInfo) ModTime() time.Time { return time.Time{} }
func (i *vFileInfo) IsDir() bool        { return i.dir }
func (i *vFileInfo) Sys() interface{}   { return nil }

// vGonePath: a path that an operation has just removed or renamed away (event-level harnesses without a file table)
var vGonePath string

func stubFsLstat(name string) (fs.FileInfo, error) {
	m := vfs
	if vGonePath != "" && name == vGonePath {
		return nil, vPathErr("lstat", os.ErrNotExist)
	}
	if d := m.dirByPath(name); d != nil {
		switch d.state {
		case vDirOK, vDirUnread:
			return &vFileInfo{name: filepath.Base(name), dir: true}, nil
		case vDirMissing:
			return nil, vPathErr("lstat", os.ErrNotExist)
		case vDirNotDir:
			return &vFileInfo{name: filepath.Base(name)}, nil
		case vDirAncestor:
			return nil, vPathErr("lstat", vENOTDIR)
		}
	}
	dir, base := filepath.Dir(name), filepath.Base(name)
	if d := m.dirByPath(dir); d != nil {
		if base == "sub" {
			return &vFileInfo{name: base, dir: true}, nil
		}
		if base == "0link" {
			return &vFileInfo{name: base, link: true}, nil
		}
		for _, f := range d.files {
			if f.name == base && (f.state == vFileDangle || f.state == vFileVanish) {
				return &vFileInfo{name: base, link: true}, nil
			}
		}
		return &vFileInfo{name: base}, nil
	}
	if filepath.Base(dir) == "sub" {
		return &vFileInfo{name: base}, nil
	}
	return nil, vPathErr("lstat", os.ErrNotExist)
}

// os.Stat follows links: a dangling link does not exist
func stubFsStat(name string) (fs.FileInfo, error) {
	m := vfs
	if d := m.dirByPath(filepath.Dir(name)); d != nil {
		if filepath.Base(name) == "0link" {
			return &vFileInfo{name: "0link", dir: true}, nil
		}
		for _, f := range d.files {
			if f.name == filepath.Base(name) && (f.state == vFileDangle || f.state == vFileVanish) {
				return nil, vPathErr("stat", os.ErrNotExist)
			}
		}
	}
	return stubFsLstat(name)
}

// the clock of the model: every reading is one second later than the previous one, far later than the modification time
// the model's files report (the zero time): a file moved or linked into a directory keeps the mtime of its content
var vClock int64

func stubNow() time.Time {
	vClock++
	return time.Time{}.Add(1000*time.Hour + time.Duration(vClock)*time.Second)
}

var vENOTDIR = vNewErr("not a directory")
var vEACCES = vNewErr("permission denied")

func vNewErr(s string) error { return &vErr{s} }

type vErr struct{ s string }

func (e *vErr) Error() string { return e.s }

func stubReadDirNames(dirname string) ([]string, error) {
	m := vfs
	if d := m.dirByPath(dirname); d != nil {
		vScanGen++
		if d.state == vDirUnread {
			return nil, vPathErr("open", vEACCES)
		}
		var names []string
		for _, f := range d.files {
			if f.state != vFileAbsent {
				names = append(names, f.name)
			}
		}
		if d.noise {
			// "0link" is a symbolic link to a directory; it sorts before the Spec files
			names = append([]string{"0link"}, names...)
			names = append(names, "c.yml", "d.txt", "e.json.tmp", "sub")
		}
		return names, nil // already in lexical order
	}
	if filepath.Base(dirname) == "sub" {
		return []string{"x.json"}, nil
	}
	return nil, vPathErr("open", os.ErrNotExist)
}

func stubReadSpec(path string, priority int) (*Spec, error) {
	m := vfs
	d := m.dirByPath(filepath.Dir(path))
	if d == nil {
		// a file below a sub-directory: loadable, but must never be asked for
		vassert("only-files-directly-inside-a-configured-directory-are-read", false)
		return nil, vPathErr("open", os.ErrNotExist)
	}
	for _, f := range d.files {
		if f.name != filepath.Base(path) {
			continue
		}
		switch f.state {
		case vFileValid:
			return newSpec(vRawSpec(f), path, priority)
		case vFileInvalid:
			return nil, vNewErr("failed to parse CDI Spec")
		case vFileVanish, vFileDangle:
			return nil, vPathErr("open", os.ErrNotExist)
		}
	}
	vassert("only-spec-named-existing-files-are-read", false)
	return nil, vPathErr("open", os.ErrNotExist)
}

// ---- native materialisation (replay): the model as real files under a temporary directory

func vMaterialise(m *vFS) {
	root, err := os.MkdirTemp("", "vfs")
	if err != nil {
		panic(err)
	}
	m.root = root
	for i, d := range m.dirs {
		d.path = filepath.Join(root, "d"+string(rune('0'+i)))
		switch d.state {
		case vDirMissing:
			continue
		case vDirNotDir:
			os.WriteFile(d.path, []byte("x"), 0o644)
			continue
		case vDirAncestor:
			anc := filepath.Join(root, "file"+string(rune('0'+i)))
			os.WriteFile(anc, []byte("x"), 0o644)
			d.path = filepath.Join(anc, "sub")
			continue
		}
		os.MkdirAll(d.path, 0o755)
		for _, f := range d.files {
			p := filepath.Join(d.path, f.name)
			switch f.state {
			case vFileValid:
				var devs []string
				for _, n := range f.devs {
					devs = append(devs, `{"name":"`+n+`","containerEdits":{"env":["DEV=`+n+`"]}}`)
				}
				os.WriteFile(p, []byte(`{"cdiVersion":"0.6.0","kind":"`+f.vendor+`/c","devices":[`+strings.Join(devs, ",")+`]}`), 0o644)
			case vFileInvalid:
				os.WriteFile(p, []byte("cdiVersion: [unterminated"), 0o644)
			case vFileVanish, vFileDangle:
				os.Symlink(filepath.Join(root, "nowhere"), p)
			}
		}
		if d.noise {
			os.WriteFile(filepath.Join(d.path, "c.yml"), []byte("x"), 0o644)
			os.WriteFile(filepath.Join(d.path, "d.txt"), []byte("x"), 0o644)
			os.WriteFile(filepath.Join(d.path, "e.json.tmp"), []byte("x"), 0o644)
			os.MkdirAll(filepath.Join(d.path, "sub"), 0o755)
			os.Symlink(filepath.Join(d.path, "sub"), filepath.Join(d.path, "0link"))
			os.WriteFile(filepath.Join(d.path, "sub", "x.json"), []byte(`{"cdiVersion":"0.6.0","kind":"v0/c","devices":[{"name":"sub","containerEdits":{"env":["A=b"]}}]}`), 0o644)
		}
		if d.state == vDirUnread {
			os.Chmod(d.path, 0)
		}
	}
}

func vCleanupFS() {
	if vnative() && vfs != nil && strings.Contains(vfs.root, "vfs") {
		for _, d := range vfs.dirs {
			os.Chmod(d.path, 0o755)
		}
		os.RemoveAll(vfs.root)
	}
}

var _ = sort.Strings

func vRewriteValid(d *vDir, f *vFile) {
	var devs []string
	for _, n := range f.devs {
		devs = append(devs, `{"name":"`+n+`","containerEdits":{"env":["DEV=`+n+`"]}}`)
	}
	os.WriteFile(filepath.Join(d.path, f.name), []byte(`{"cdiVersion":"0.6.0","kind":"`+f.vendor+`/c","devices":[`+strings.Join(devs, ",")+`]}`), 0o644)
}

// vSetFileState changes what a Spec-named file is, in the model and (natively) on disk
func vSetFileState(d *vDir, f *vFile, state int) {
	f.state = state
	if !vnative() {
		return
	}
	p := filepath.Join(d.path, f.name)
	os.Remove(p)
	switch state {
	case vFileValid:
		vRewriteValid(d, f)
	case vFileInvalid:
		os.WriteFile(p, []byte("cdiVersion: [unterminated"), 0o644)
	}
}

func vToggleFile(d *vDir, f *vFile) {
	if f.state == vFileValid {
		vSetFileState(d, f, vFileAbsent)
	} else {
		vSetFileState(d, f, vFileValid)
	}
}
