#!/usr/bin/env python3
"""schema2go.py <repo> <out.go> : reads <repo>/schema/schema.json, defs.json and the struct tags of <repo>/specs-go/config.go and
emits a Go reference  vSchemaAccepts(*cdi.Spec) bool : the JSON image of the Go value (per encoding/json tag rules) checked against
the draft-07 keywords the shipped files use. A keyword the generator does not implement, or an unresolvable $ref, aborts (exit 3):
the check is then INCONCLUSIVE rather than wrong."""
import json, re, sys, os

repo, out = sys.argv[1], sys.argv[2]
schema = json.load(open(os.path.join(repo, "schema", "schema.json")))
defs = json.load(open(os.path.join(repo, "schema", "defs.json")))
src = open(os.path.join(repo, "specs-go", "config.go")).read()

IGNORED = {"description", "$schema", "definitions", "ref", "title", "$id", "$comment"}   # "ref" (sic) is an unknown keyword: ignored by draft-07
KNOWN = {"type", "properties", "required", "items", "$ref", "minimum", "maximum", "patternProperties"}

# ---- Go structs: name -> [(field, gotype, jsonname, omitempty)]
structs = {}
for m in re.finditer(r"type (\w+) struct \{(.*?)\n\}", src, re.S):
    fields = []
    for line in m.group(2).split("\n"):
        fm = re.match(r"\s*(\w+)\s+(\S+)\s+`json:\"([^\"]*)\"", line)
        if fm:
            tag = fm.group(3).split(",")
            fields.append((fm.group(1), fm.group(2), tag[0], "omitempty" in tag[1:]))
    structs[m.group(1)] = fields

def die(msg):
    sys.stderr.write("schema2go: " + msg + "\n")
    sys.exit(3)

def resolve(node):
    while "$ref" in node:
        ref = node["$ref"]
        if ref.startswith("defs.json#/definitions/"):
            node = defs["definitions"].get(ref.split("/")[-1])
        elif ref.startswith("#/definitions/"):
            node = defs["definitions"].get(ref.split("/")[-1])
        else:
            die("unresolvable $ref " + ref)
        if node is None:
            die("unresolvable $ref " + ref)
    for k in node:
        if k not in KNOWN and k not in IGNORED:
            die("unsupported schema keyword %r" % k)
    return node

counter = [0]
funcs = []

def gen(node, gotype, expr):
    """Go boolean expression: does the JSON image of expr (of Go type gotype, known to be PRESENT in the document) satisfy node?"""
    node = resolve(node)
    t = node.get("type")
    ptr = gotype.startswith("*")
    base = gotype.lstrip("*")
    conds = []
    if ptr:
        # a nil pointer that is present in the document is JSON null: only acceptable when no type is demanded
        inner = gen(node, base, "(*%s)" % expr)
        if t is None:
            return "(%s == nil || %s)" % (expr, inner)
        return "(%s != nil && %s)" % (expr, inner)
    if base == "string":
        kind = "string"
    elif base in ("int64", "uint32", "int", "os.FileMode"):
        kind = "integer"
    elif base == "bool":
        kind = "boolean"
    elif base.startswith("[]"):
        kind = "array"
    elif base.startswith("map["):
        kind = "object"
    elif base in structs:
        kind = "object"
    else:
        die("unsupported Go type " + gotype)
    if t is not None and t != kind:
        if not (t == "number" and kind == "integer"):
            return "false /* schema type %s, Go %s */" % (t, gotype)
    if kind == "integer":
        if "minimum" in node:
            conds.append("vGE(int64(%s), %d, %s)" % (expr, node["minimum"], "true" if base in ("uint32", "os.FileMode") else "false"))
        if "maximum" in node:
            conds.append("vLE(%s, %d)" % (("uint64(%s)" % expr) if base in ("uint32", "os.FileMode") else ("int64(%s)" % expr), node["maximum"]))
            if base not in ("uint32", "os.FileMode"):
                pass
    elif kind == "array":
        # nil slice present in the document is JSON null
        elem = base[2:]
        if t is not None:
            conds.append("%s != nil" % expr)
        if "items" in node:
            counter[0] += 1
            fn = "vItems%d" % counter[0]
            body = gen(node["items"], elem, "e")
            funcs.append("func %s(l %s) bool {\n\tfor _, e := range l {\n\t\t_ = e\n\t\tif !(%s) {\n\t\t\treturn false\n\t\t}\n\t}\n\treturn true\n}\n" % (fn, qual(base), body))
            conds.append("%s(%s)" % (fn, expr))
    elif kind == "object" and base.startswith("map["):
        if t is not None:
            conds.append("%s != nil" % expr)
        pp = node.get("patternProperties")
        if pp:
            for pat, sub in pp.items():
                if pat != ".{1,}":
                    die("unsupported patternProperties pattern %r" % pat)
                sub = resolve(sub)
                if sub.get("type") not in (None, "string"):
                    conds.append("len(%s) == 0 || vOnlyEmptyKeys(%s)" % (expr, expr))
        if node.get("properties") or node.get("required"):
            die("properties/required on a Go map are not supported")
    elif kind == "object":
        props = node.get("properties", {})
        fields = structs[base]
        byname = {f[2]: f for f in fields}
        for r in node.get("required", []):
            if r not in byname:
                conds.append("false /* required member %s has no Go field */" % r)
            elif byname[r][3]:
                conds.append(present_expr(byname[r], expr))  # omitempty: must be non-empty to be present
        for name, sub in props.items():
            if name not in byname:
                continue
            f = byname[name]
            fe = "%s.%s" % (expr, f[0])
            inner = gen(sub, f[1], fe)
            if f[3]:
                conds.append("(!(%s) || %s)" % (present_expr(f, expr), inner))
            else:
                conds.append(inner)
    return "(" + " && ".join(conds) + ")" if conds else "true"

def qual(t):
    """Go type text with the specs-go package qualifier"""
    m = re.match(r"^((?:\[\]|\*)*)(\w+)$", t)
    if m and m.group(2) in structs:
        return m.group(1) + "cdi." + m.group(2)
    return t

def present_expr(f, expr):
    fe = "%s.%s" % (expr, f[0])
    gt = f[1]
    if gt.startswith("*"):
        return "%s != nil" % fe
    if gt == "string":
        return '%s != ""' % fe
    if gt.startswith("[]") or gt.startswith("map["):
        return "len(%s) > 0" % fe
    if gt in ("int64", "uint32", "int", "os.FileMode"):
        return "%s != 0" % fe
    if gt == "bool":
        return fe
    return "true"  # struct values are never omitted by encoding/json

top = gen(schema, "Spec", "(*s)")
code = """package PKGNAME

// GENERATED by /verif/gen/schema2go.py from schema/schema.json, schema/defs.json and the struct tags of specs-go/config.go.
// vSchemaAccepts(s): does the JSON image of s (encoding/json tag rules) satisfy the shipped schema under draft-07 semantics?

import (
	"os"

	cdi "tags.cncf.io/container-device-interface/specs-go"
)

var _ os.FileMode

func vGE(v int64, min int64, unsigned bool) bool { return unsigned || v >= min }
func vLE[T int64 | uint64](v T, max uint64) bool {
	if v < 0 {
		return true
	}
	return uint64(v) <= max
}
func vOnlyEmptyKeys(m map[string]string) bool {
	for k := range m {
		if k != "" {
			return false
		}
	}
	return true
}

func vSchemaAccepts(s *cdi.Spec) bool {
	return %s
}

%s
""" % (top, "\n".join(funcs))
open(out, "w").write(code)
