#!/usr/bin/env python3
"""seedindex.py : fold the results of seedtest runs (/tmp/seedlogs/<root>_<id>.log) into /verif/seeded/<name>/meta.json
("what you ran", "which check caught it") and regenerate /verif/seeded/INDEX.md."""
import json, os, re, glob

SEEDED = "/verif/seeded"
LOGS = "/tmp/seedlogs_final"


def parse_log(path):
    """-> {check_id: {"rc": int, "caught_by": [labels], "inconclusive": first reason}}"""
    res = {}
    cur_labels, cur_incon = [], None
    for line in open(path, errors="replace"):
        m = re.match(r"\s*violated: (\S+)/(\S+) ", line)
        if m:
            lab = m.group(1) + "/" + m.group(2)
            if lab not in cur_labels:
                cur_labels.append(lab)
        m = re.match(r"INCONCLUSIVE property=\S+ reason=(.*)", line)
        if m and cur_incon is None:
            cur_incon = m.group(1)[:160]
        m = re.match(r"rc\[(C\d+(?:-thorough)?)\]=(\d+)", line)
        if m:
            res[m.group(1)] = {"rc": int(m.group(2)), "caught_by": cur_labels, "inconclusive": cur_incon}
            cur_labels, cur_incon = [], None
    return res


def main():
    rows = []
    for d in sorted(glob.glob(SEEDED + "/C*")):
        name = os.path.basename(d)
        mp = os.path.join(d, "meta.json")
        if not os.path.exists(mp):
            continue
        meta = json.load(open(mp))
        pid = meta["property"]
        lp = os.path.join(LOGS, "%s.log" % name)
        if os.path.exists(lp) and os.path.getsize(lp) > 0:
            meta["checks_run"] = parse_log(lp)
            if "PATCH DOES NOT APPLY" in open(lp).read():
                meta["checks_run"] = {pid: {"rc": 3, "caught_by": [], "inconclusive": None}}
            meta["checks_run_cmd"] = "./seedfinal.sh %s   (applies the change to a scratch worktree of /repo, runs the listed checks until one reports a violation, removes the worktree)" % name
        json.dump(meta, open(mp, "w"), indent=1)
        cr = meta.get("checks_run", {})
        verdicts = []
        for cid, r in cr.items():
            if r["rc"] == 1:
                verdicts.append("%s: **caught** (%s)" % (cid, ", ".join(r["caught_by"][:2])))
            elif r["rc"] == 2:
                verdicts.append("%s: flagged INCONCLUSIVE (%s)" % (cid, (r["inconclusive"] or "")[:90]))
            elif r["rc"] == 3:
                verdicts.append("%s: patch no longer applies to HEAD" % cid)
            else:
                verdicts.append("%s: missed" % cid)
        note = meta.get("note_on_result", "")
        rows.append((name, pid, (meta.get("summary") or "")[:200], "; ".join(verdicts) or "not run", note))
    with open(SEEDED + "/INDEX.md", "w") as f:
        f.write("# Seeded changes and what catches them\n\n")
        f.write("Each directory holds `patch.diff` (the change), the demonstration (`*_test.go.txt`), the author's `notes.md` and `meta.json`\n")
        f.write("(property, what it needs to manifest, how it was confirmed, which checks were run against it and what they said).\n")
        f.write("`-r2`/`-r3`/`-r4` = second/third/fourth round, written against the tree with the `fix:` commits. Round-1 changes were confirmed against the tree of their time;\n")
        f.write("some no longer apply or are neutralised by a later fix (noted).\n\n")
        f.write("| seed | property | change (short) | result of the quick checks | note |\n|---|---|---|---|---|\n")
        for r in rows:
            f.write("| %s | %s | %s | %s | %s |\n" % tuple(x.replace("|", "/").replace("\n", " ") for x in r))
    print("indexed", len(rows))


if __name__ == "__main__":
    main()
