#!/usr/bin/env python3
"""report.py: fold /tmp/mut/*/stage1.json + stage2.json and mutate/triage.json into mutate/RESULTS.md and mutate/results.json."""
import json, glob, os, sys
sys.path.insert(0, "/verif/mutate")
from stage1 import FILES
tri = json.load(open("/verif/mutate/triage.json")) if os.path.exists("/verif/mutate/triage.json") else {}
rows, allres = [], {}
tot = dict(mutants=0, compile=0, killed=0, survived=0, run=0, caught=0, flagged=0, uncaught=0, nocheck=0)
for key in sorted(FILES):
    p1, p2 = "/tmp/mut/%s/stage1.json" % key, "/tmp/mut/%s/stage2.json" % key
    if not os.path.exists(p1):
        continue
    s1 = json.load(open(p1))
    s2 = json.load(open(p2)) if os.path.exists(p2) else {}
    c = dict(mutants=len(s1), compile=0, killed=0, survived=0, run=0, caught=0, flagged=0, uncaught=0, nocheck=0)
    for mid, v in s1.items():
        c["compile" if v["verdict"] == "compile-error" else "killed" if v["verdict"] == "killed-by-tests" else "survived"] += 1
    unc = []
    for mid, r in sorted(s2.items()):
        c["run"] += 1
        if r["caught_by"]:
            c["caught"] += 1
        elif not r["checks"]:
            c["nocheck"] += 1
        elif any(x["rc"] not in (0, 1) for x in r["checks"].values()):
            c["flagged"] += 1
            unc.append((mid, r, "flagged inconclusive"))
        else:
            c["uncaught"] += 1
            unc.append((mid, r, "uncaught"))
    for k in tot:
        tot[k] += c[k]
    rows.append((FILES[key], c, unc, key))
    allres[FILES[key]] = {"counts": c, "survivors": s2}
json.dump(allres, open("/verif/mutate/results.json", "w"), indent=1)
with open("/verif/mutate/RESULTS.md", "w") as f:
    f.write("# Syntactic mutants: what the existing suite lets through and what the checks say\n\n")
    f.write("`mutate` → `stage1.py` (compiles and passes the existing suite = survivor) → `stage2.py` (quick checks that execute the mutated function).\n")
    f.write("A survivor is *caught* when a check exits 1 with a natively replayed VIOLATION, *flagged* when a check ends inconclusive (exit 2),\n*no check* when no claimed check executes the function (dead or out-of-scope code), *uncaught* otherwise; every uncaught/flagged one is triaged below.\n\n")
    f.write("| file | mutants | do not compile | killed by suite | survive suite | run | caught | flagged | uncaught | no check executes it |\n|---|---|---|---|---|---|---|---|---|---|\n")
    for rel, c, unc, key in rows:
        f.write("| %s | %d | %d | %d | %d | %d | %d | %d | %d | %d |\n" % (rel, c["mutants"], c["compile"], c["killed"], c["survived"], c["run"], c["caught"], c["flagged"], c["uncaught"], c["nocheck"]))
    f.write("| **total** | %d | %d | %d | %d | %d | %d | %d | %d | %d |\n\n" % tuple(tot[k] for k in ("mutants", "compile", "killed", "survived", "run", "caught", "flagged", "uncaught", "nocheck")))
    cats = {"equivalent": 0, "outside": 0, "was a GAP": 0, "flagged": 0, "caught by": 0, "NOT YET": 0}
    for rel, c, unc, key in rows:
        for mid, r, st in unc:
            tx = tri.get(key + "/" + mid) or "NOT YET"
            for k in cats:
                if tx.startswith(k):
                    cats[k] += 1
                    break
            else:
                cats.setdefault("other", 0)
                cats["other"] += 1
    f.write("Of the %d survivors that were run and not caught at the time: %d are equivalent mutants for every observable the properties name (most differ only in an error text or re-check something a stricter test already covers), "
            "%d lie outside the claimed properties or the stated model (recorded with the reason), %d were flagged inconclusive (exit 2, not a pass), %d was caught by a check the function table had not listed, "
            "and **%d were real gaps in a check's oracle or environment model, each closed by strengthening the harness and re-run against the mutant** "
            "(C07 first-separator contract, C03 frame with unsorted initial mounts, C16/C10 'a write succeeds when nothing fails', C20 'every query' incl. the genuine GetErrors defect, C11 pending watcher error, C19 errors named before a start-up exit and map-order independence of inject).\n"
            % (sum(len(u) for _, _, u, _ in rows), cats["equivalent"], cats["outside"], cats["flagged"], cats["caught by"], cats["was a GAP"]))
    f.write("The mutants of `cmd/cdi/cmd/*.go` survive the suite wholesale (the package has no tests); they were run against C19 last and triaged by rule (text layout, output format and failures the stubs never produce are outside C19's claim), two of them by hand (both gaps, closed).\n\n")
    f.write("## Triage of survivors the checks did not catch\n\n")
    for rel, c, unc, key in rows:
        if not unc:
            continue
        f.write("### %s\n\n| mutant | function:line | mutation | checks run | triage |\n|---|---|---|---|---|\n" % rel)
        for mid, r, st in unc:
            t = tri.get(key + "/" + mid) or tri.get("%s/%s:%d" % (key, r["func"], r["line"])) or "NOT YET TRIAGED"
            f.write("| %s | %s:%d | %s: `%s` → `%s` | %s (%s) | %s |\n" % (mid, r["func"], r["line"], r["kind"], r["orig"].replace("|", "\\|").replace("\n", " ")[:50], r["repl"].replace("|", "\\|")[:40], " ".join(r["checks"]), st, t))
        f.write("\n")
print(tot)
