#!/bin/bash
# muttest.sh <key> <mutant-id> <check-id>... : run checks against one mutant in a scratch worktree
key=$1; mid=$2; shift 2
rel=$(python3 -c "import sys; sys.path.insert(0,'/verif/mutate'); from stage1 import FILES; print(FILES['$key'])")
wt=$(mktemp -d /tmp/mutt.XXXXXX); git -C /repo worktree add --detach "$wt" HEAD >/dev/null 2>&1 || exit 3
cp /tmp/mut/$key/$mid.go $wt/$rel
ev=$(mktemp -d /tmp/mutev.XXXXXX)
for id in "$@"; do
  (cd /verif && VERIF_REPO=$wt VERIF_EVIDENCE_DIR=$ev timeout 1500 ./check $id --tier ${TIER:-quick} 2>&1 | cut -c1-260 | grep -E "^(check|VIOLATION|INCONCLUSIVE|  violated)" | head -4; echo "rc[$id]=${PIPESTATUS[0]}")
done
cd /; git -C /repo worktree remove --force "$wt"; rm -rf "$ev"
