#!/usr/bin/env python3
"""stage2.py <key>...: run the quick checks that encode the mutated function against every stage-1 survivor.
Mapping mutant -> checks: every check whose last evidence lists the mutated function under functions_encoded, cheapest first,
stopping at the first check that reports a VIOLATION (rc=1). Results: /tmp/mut/<key>/stage2.json (incremental)."""
import json, os, subprocess, sys, shutil, glob, re, time
sys.path.insert(0, "/verif/mutate")
from stage1 import FILES
EV = "/verif/evidence"
WT = "/tmp/mutwt/s2"
COST = {}
ENC = {}
for p in glob.glob(EV + "/C*.json"):
    e = json.load(open(p))
    pid = e["property_id"]
    COST[pid] = e.get("wall_s", 60)
    names = set()
    for fn in e["coverage"].get("functions_encoded", {}):
        if "container-device-interface" not in fn:
            continue
        base = re.sub(r"\$\d+.*$", "", fn)
        base = base.split(".")[-1]
        pk = "cmd" if "/cmd/" in fn else ("schema" if "/schema" in fn else ("specs" if "/specs-go" in fn else ("parser" if "/pkg/parser" in fn else ("k8s" if "/k8s" in fn else ("validation" if "/internal/validation" in fn else "cdi")))))
        names.add((pk, base))
    ENC[pid] = names

# the checks whose property a function is anchored in, for the functions nearly every cache check executes
HOME = {
 ("cdi", "refresh"): ["C01", "C13", "C12"], ("cdi", "Refresh"): ["C01", "C13", "C12"], ("cdi", "refreshIfRequired"): ["C11", "C20", "C12"],
 ("cdi", "InjectDevices"): ["C04", "C02", "C14", "C12"], ("cdi", "WriteSpec"): ["C16", "C10", "C12"], ("cdi", "RemoveSpec"): ["C16", "C10", "C12"],
 ("cdi", "highestPrioritySpecDir"): ["C16", "C10"], ("cdi", "Configure"): ["C20", "C12"], ("cdi", "configure"): ["C20", "C12", "C01"],
 ("cdi", "newCache"): ["C20", "C01", "C12"], ("cdi", "NewCache"): ["C20", "C01"], ("cdi", "scanSpecDirs"): ["C01", "C13"],
 ("cdi", "setup"): ["C20", "C11", "C12"], ("cdi", "start"): ["C20", "C11"], ("cdi", "stop"): ["C20", "C11", "C12"], ("cdi", "watch"): ["C11", "C12", "C20"],
 ("cdi", "update"): ["C11", "C20", "C12"], ("cdi", "newSpec"): ["C05", "C08", "C01"], ("cdi", "ReadSpec"): ["C08", "C05"], ("cdi", "write"): ["C10", "C16"],
 ("cdi", "validate"): ["C05", "C08"], ("cdi", "Apply"): ["C03", "C14", "C02"],
}
MAXCHECKS = 4
MAXCOST = 100  # checks slower than this (C08, C15) only run where they are a function's home check
FILEHOME = {"pkg/parser/parser.go": ["C07"], "pkg/cdi/annotations.go": ["C15"], "specs-go/version.go": ["C06", "C05"],
            "internal/validation/k8s/validation.go": ["C05", "C17"], "internal/validation/validate.go": ["C05", "C17"],
            "pkg/cdi/device.go": ["C05", "C14", "C01"], "schema/schema.go": ["C17", "C18"], "cmd/validate/validate.go": ["C19"]}

def pkgof(rel):
    if rel.startswith("cmd/"): return "cmd"
    if rel.startswith("schema"): return "schema"
    if rel.startswith("specs-go"): return "specs"
    if rel.startswith("pkg/parser"): return "parser"
    if rel.startswith("internal/validation/k8s"): return "k8s"
    if rel.startswith("internal/validation"): return "validation"
    return "cdi"

def main():
    if not os.path.exists(WT):
        subprocess.run(["git", "-C", "/repo", "worktree", "add", "--detach", WT, "HEAD"], stdout=subprocess.DEVNULL, stderr=subprocess.DEVNULL)
    for key in sys.argv[1:]:
        rel = FILES[key]
        s1 = json.load(open("/tmp/mut/%s/stage1.json" % key))
        idx = {m["id"]: m for m in json.load(open("/tmp/mut/%s/index.json" % key))}
        outp = "/tmp/mut/%s/stage2.json" % key
        res = json.load(open(outp)) if os.path.exists(outp) else {}
        dst = os.path.join(WT, rel)
        orig = open(dst, "rb").read()
        for mid in sorted(s1):
            if s1[mid]["verdict"] != "survived" or mid in res:
                continue
            m = idx[mid]
            checks = sorted([pid for pid in ENC if (pkgof(rel), m["func"]) in ENC[pid]], key=lambda p: COST[p])
            home = [p for p in HOME.get((pkgof(rel), m["func"]), []) if p in checks]
            if not home:
                home = [p for p in FILEHOME.get(rel, ["C19"] if rel.startswith("cmd/cdi/cmd/") else []) if p in checks]
            checks = home if home else [p for p in checks if COST[p] <= MAXCOST][:MAXCHECKS]
            r = {"func": m["func"], "line": m["line"], "kind": m["kind"], "orig": m["orig"][:80], "repl": m["repl"][:80], "checks": {}, "caught_by": None}
            shutil.copy("/tmp/mut/%s/%s.go" % (key, mid), dst)
            for pid in checks:
                t0 = time.time()
                try:
                    p = subprocess.run(["./check", pid, "--tier", "quick"], cwd="/verif", env=dict(os.environ, VERIF_REPO=WT, VERIF_EVIDENCE_DIR="/tmp/mut/ev"),
                                       stdout=subprocess.PIPE, stderr=subprocess.STDOUT, text=True, timeout=1500)
                    rc, out = p.returncode, p.stdout
                except subprocess.TimeoutExpired:
                    rc, out = 124, ""
                    subprocess.run(["pkill", "-x", "gosymex"])
                lab = re.findall(r"violated: (\S+)", out)[:2]
                inc = re.findall(r"INCONCLUSIVE property=\S+ reason=(.{0,140})", out)[:1]
                r["checks"][pid] = {"rc": rc, "s": round(time.time() - t0), "labels": lab, "inconclusive": inc}
                if rc == 1:
                    r["caught_by"] = pid
                    break
            open(dst, "wb").write(orig)
            res[mid] = r
            json.dump(res, open(outp, "w"), indent=1)
            print(key, mid, m["func"], m["line"], m["kind"], "->", r["caught_by"] or ("FLAGGED " + ",".join(p for p, v in r["checks"].items() if v["rc"] not in (0, 1)) if any(v["rc"] not in (0, 1) for v in r["checks"].values()) else "uncaught"), list(r["checks"]), flush=True)

if __name__ == "__main__":
    os.makedirs("/tmp/mut/ev", exist_ok=True)
    main()
