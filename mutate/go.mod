module verif/mutate

go 1.23
