#!/usr/bin/env python3
"""stage1.py: for every mutant under /tmp/mut/<file-key>/ decide whether it compiles and passes the existing suite
(survivor). Runs JOBS mutants in parallel, each in its own scratch worktree of /repo's HEAD. Results: /tmp/mut/<key>/stage1.json"""
import json, os, subprocess, sys, shutil, glob, concurrent.futures as cf, threading, queue
ENV = dict(os.environ, GOFLAGS="-mod=mod", GOPROXY="off", GOSUMDB="off", GOTOOLCHAIN="local")
JOBS = int(os.environ.get("JOBS", "5"))
FILES = {
 "pkg_parser_parser.go": "pkg/parser/parser.go", "specs-go_version.go": "specs-go/version.go", "pkg_cdi_annotations.go": "pkg/cdi/annotations.go",
 "pkg_cdi_container-edits.go": "pkg/cdi/container-edits.go", "pkg_cdi_cache.go": "pkg/cdi/cache.go", "pkg_cdi_spec.go": "pkg/cdi/spec.go",
 "pkg_cdi_spec-dirs.go": "pkg/cdi/spec-dirs.go", "pkg_cdi_device.go": "pkg/cdi/device.go", "internal_validation_validate.go": "internal/validation/validate.go",
 "internal_validation_k8s_validation.go": "internal/validation/k8s/validation.go", "schema_schema.go": "schema/schema.go", "cmd_validate_validate.go": "cmd/validate/validate.go",
}
for f in glob.glob("/tmp/mut/cmd_cdi_cmd_*"):
    FILES[os.path.basename(f)] = "cmd/cdi/cmd/" + os.path.basename(f)[len("cmd_cdi_cmd_"):]

def sh(cmd, cwd, timeout=600):
    try:
        p = subprocess.run(cmd, cwd=cwd, env=ENV, shell=True, stdout=subprocess.PIPE, stderr=subprocess.STDOUT, text=True, timeout=timeout)
        return p.returncode, p.stdout
    except subprocess.TimeoutExpired:
        return 124, "timeout"

def plan(rel):
    if rel.startswith("cmd/validate"):
        return ["cd cmd/validate && go build -o /dev/null ./..."]
    if rel.startswith("cmd/cdi"):
        return ["cd cmd/cdi && go build -o /dev/null ./..."]
    steps = []
    if rel.startswith("schema"):
        steps.append("cd schema && go build ./... && go test -vet=off -count=1 ./...")
        steps.append("cd cmd/validate && go build -o /dev/null ./...")
        steps.append("go build ./... && go test -vet=off -count=1 ./...")
        return steps
    steps.append("go build ./... && go test -vet=off -count=1 ./...")
    steps.append("cd schema && go build ./... && go test -vet=off -count=1 ./...")
    steps.append("cd cmd/cdi && go build -o /dev/null ./...")
    steps.append("cd cmd/validate && go build -o /dev/null ./...")
    return steps

slots = queue.Queue()
def work(item):
    key, rel, m = item
    wt = slots.get()
    try:
        dst = os.path.join(wt, rel)
        orig = open(dst, "rb").read()
        shutil.copy("/tmp/mut/%s/%s.go" % (key, m["id"]), dst)
        verdict = "survived"
        detail = ""
        for st in plan(rel):
            rc, out = sh(st, wt)
            if rc != 0:
                verdict = "compile-error" if ("[build failed]" in out or "\n# " in out or out.startswith("# ")) and "--- FAIL" not in out else "killed-by-tests"
                detail = out[-300:]
                break
        open(dst, "wb").write(orig)
        return key, m["id"], verdict, detail
    finally:
        slots.put(wt)

def main():
    keys = sys.argv[1:] or sorted(FILES)
    for k in range(JOBS):
        wt = "/tmp/mutwt/%d" % k
        if not os.path.exists(wt):
            os.makedirs("/tmp/mutwt", exist_ok=True)
            subprocess.run(["git", "-C", "/repo", "worktree", "add", "--detach", wt, "HEAD"], stdout=subprocess.DEVNULL, stderr=subprocess.DEVNULL)
        slots.put(wt)
    items = []
    for key in keys:
        if os.path.exists("/tmp/mut/%s/stage1.json" % key):
            continue
        for m in json.load(open("/tmp/mut/%s/index.json" % key)):
            items.append((key, FILES[key], m))
    res = {}
    with cf.ThreadPoolExecutor(JOBS) as ex:
        for n, (key, mid, verdict, detail) in enumerate(ex.map(work, items)):
            res.setdefault(key, {})[mid] = {"verdict": verdict, "detail": detail}
            if n % 20 == 0:
                print(n, "/", len(items), flush=True)
    for key, r in res.items():
        json.dump(r, open("/tmp/mut/%s/stage1.json" % key, "w"), indent=1)
        c = {}
        for v in r.values():
            c[v["verdict"]] = c.get(v["verdict"], 0) + 1
        print(key, c, flush=True)

if __name__ == "__main__":
    main()
