package main

// mutate <file.go> <outdir> : writes one mutated copy of the file per mutation site (m0001.go ...) and an index.json
// describing each (line, kind, original text, replacement). Purely syntactic, small-step mutations of the kind a slip
// in a refactoring produces: relational/boolean operator swaps, dropped negations, off-by-one constants, dropped
// statements, `return err` -> `return nil`, swapped break/continue. Functions can be restricted with -funcs a,b,c.
import (
	"encoding/json"
	"flag"
	"fmt"
	"go/ast"
	"go/parser"
	"go/token"
	"os"
	"path/filepath"
	"strings"
)

type mut struct {
	ID    string `json:"id"`
	Func  string `json:"func"`
	Line  int    `json:"line"`
	Kind  string `json:"kind"`
	Orig  string `json:"orig"`
	Repl  string `json:"repl"`
	start int
	end   int
}

func main() {
	funcs := flag.String("funcs", "", "comma-separated function names (default all)")
	flag.Parse()
	file, out := flag.Arg(0), flag.Arg(1)
	src, err := os.ReadFile(file)
	if err != nil {
		panic(err)
	}
	fset := token.NewFileSet()
	f, err := parser.ParseFile(fset, file, src, parser.ParseComments)
	if err != nil {
		panic(err)
	}
	want := map[string]bool{}
	for _, n := range strings.Split(*funcs, ",") {
		if n != "" {
			want[n] = true
		}
	}
	var muts []mut
	off := func(p token.Pos) int { return fset.Position(p).Offset }
	add := func(fn string, kind string, s, e int, repl string) {
		muts = append(muts, mut{Func: fn, Line: fset.Position(f.Pos()).Line, Kind: kind, Orig: string(src[s:e]), Repl: repl, start: s, end: e})
		muts[len(muts)-1].Line = strings.Count(string(src[:s]), "\n") + 1
	}
	swap := map[token.Token][]string{
		token.EQL: {"!="}, token.NEQ: {"=="}, token.LSS: {"<=", ">"}, token.LEQ: {"<"}, token.GTR: {">=", "<"}, token.GEQ: {">"},
		token.LAND: {"||"}, token.LOR: {"&&"}, token.ADD: {"-"}, token.SUB: {"+"},
	}
	for _, d := range f.Decls {
		fd, ok := d.(*ast.FuncDecl)
		if !ok || fd.Body == nil {
			continue
		}
		name := fd.Name.Name
		if len(want) > 0 && !want[name] {
			continue
		}
		ast.Inspect(fd.Body, func(n ast.Node) bool {
			switch x := n.(type) {
			case *ast.BinaryExpr:
				for _, r := range swap[x.Op] {
					// skip string concatenation for +/- swaps
					if x.Op == token.ADD || x.Op == token.SUB {
						if _, isStr := x.X.(*ast.BasicLit); isStr && x.X.(*ast.BasicLit).Kind == token.STRING {
							continue
						}
						if bl, isStr := x.Y.(*ast.BasicLit); isStr && bl.Kind == token.STRING {
							continue
						}
					}
					s := off(x.OpPos)
					add(name, "op", s, s+len(x.Op.String()), r)
				}
			case *ast.UnaryExpr:
				if x.Op == token.NOT {
					s := off(x.OpPos)
					add(name, "drop-not", s, s+1, "")
				}
			case *ast.BasicLit:
				if x.Kind == token.INT {
					s, e := off(x.Pos()), off(x.End())
					t := string(src[s:e])
					if len(t) < 4 && !strings.HasPrefix(t, "0x") && !(strings.HasPrefix(t, "0") && len(t) > 1) {
						add(name, "const+1", s, e, "("+t+"+1)")
						if t != "0" {
							add(name, "const-1", s, e, "("+t+"-1)")
						}
					}
				}
			case *ast.ExprStmt:
				s, e := off(x.Pos()), off(x.End())
				add(name, "drop-stmt", s, e, "")
			case *ast.AssignStmt:
				if x.Tok != token.DEFINE {
					s, e := off(x.Pos()), off(x.End())
					add(name, "drop-assign", s, e, "")
				}
			case *ast.IncDecStmt:
				s, e := off(x.Pos()), off(x.End())
				add(name, "drop-incdec", s, e, "")
			case *ast.DeferStmt:
				s, e := off(x.Pos()), off(x.End())
				add(name, "drop-defer", s, e, "")
			case *ast.BranchStmt:
				if x.Label == nil {
					s, e := off(x.Pos()), off(x.End())
					if x.Tok == token.BREAK {
						add(name, "break->continue", s, e, "continue")
					} else if x.Tok == token.CONTINUE {
						add(name, "continue->break", s, e, "break")
					}
				}
			case *ast.ReturnStmt:
				// return ..., err  ->  return ..., nil
				if len(x.Results) > 0 {
					last := x.Results[len(x.Results)-1]
					if id, ok := last.(*ast.Ident); ok && (id.Name == "err") {
						s, e := off(id.Pos()), off(id.End())
						add(name, "return-nil-error", s, e, "nil")
					}
				}
			case *ast.IfStmt:
				// condition forced: if c -> if false && (c)   (drops the guarded block)
				s, e := off(x.Cond.Pos()), off(x.Cond.End())
				add(name, "if-never", s, e, "false && ("+string(src[s:e])+")")
			}
			return true
		})
	}
	os.MkdirAll(out, 0o755)
	for i := range muts {
		m := &muts[i]
		m.ID = fmt.Sprintf("m%04d", i+1)
		data := append([]byte{}, src[:m.start]...)
		data = append(data, m.Repl...)
		data = append(data, src[m.end:]...)
		if err := os.WriteFile(filepath.Join(out, m.ID+".go"), data, 0o644); err != nil {
			panic(err)
		}
	}
	b, _ := json.MarshalIndent(muts, "", " ")
	os.WriteFile(filepath.Join(out, "index.json"), b, 0o644)
	fmt.Println(len(muts), "mutants")
}
