#!/bin/bash
# seedall.sh <seed-root> <id>... : run every given seed's own check(s) in sequence; log under /tmp/seedlogs/<root-basename>_<id>.log
root=$1; shift
mkdir -p /tmp/seedlogs
for id in "$@"; do
  log=/tmp/seedlogs/$(basename $root)_$id.log
  checks=$id
  case $id in C02) checks="C02 C14";; C05) checks="C05 C06";; C14) checks="C14 C02";; esac
  [ -f /verif/checks/$id.json ] || continue
  SEED_TIMEOUT=1500 /verif/seedtest.sh $root/$id/patch.diff $checks > $log 2>&1
  echo "$id: $(grep -E '^rc\[' $log | tr '\n' ' ')"
done
