#!/bin/bash
# round 3: each seed against its own check and the checks of the code it touches
root=/tmp/seedout3
mkdir -p /tmp/seedlogs
run() { id=$1; shift; log=/tmp/seedlogs/seedout3_$id.log; SEED_TIMEOUT=1500 /verif/seedtest.sh $root/$id/patch.diff "$@" > $log 2>&1; echo "$id: $(grep -E '^rc\[' $log | tr '\n' ' ')"; }
run C07 C07
run C06 C06
run C05 C05
run C14 C14 C02
run C16 C16
run C10 C10
run C13 C13
run C17 C17
run C18 C18 C17
run C19 C19
run C20 C20 C11
run C11 C11 C20
run C12 C12 C11
run C01 C11 C01
run C02 C13 C01 C02
run C04 C01 C04
run C03 C03
run C08 C08 C05
run C15 C15 C07
